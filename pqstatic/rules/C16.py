"""C16 — relabelling modes relabels the result: the order-preservation clause.

Decides one necessary clause: in every simulation step, state method and helper that receives the
requested mode tuple, the order of `instruction.modes` is not discarded before it decides the layout of
outcomes / reduced states:
  * no permutation-blind *fullness test* (`set(modes) ==/!= set(range(...))`) selects the code path;
  * no `sorted` / `np.sort` / `np.unique` / `set` round trip of the mode tuple is bound, passed on or returned.
`set(modes)` used for emptiness, intersection, membership or distinctness (`len(set(m)) == len(m)`) is
order-irrelevant and accepted; iterating `for m in sorted(other_modes)` is accepted.
Permutation covariance of the numerical index lists and commutation of disjoint gates are not decided.
"""

from __future__ import annotations

import ast
from typing import Dict, List, Optional, Set, Tuple

from ..callgraph import get_resolver
from ..index import FuncInfo, get_index, dotted, norm, walk_no_nested
from ..registry import get_registry
from ..report import Context, AnalysisError

LEVEL = "other"
ORDER_DESTROYING = {"sorted", "sort", "unique", "set", "frozenset"}
ORDER_KEEPING = {"tuple", "list", "array", "asarray"}


def _is_modes_source(e: ast.AST, base: Optional[str] = None) -> bool:
    """`<x>.modes` on an instruction-like object (of the object `base` only, when given)."""
    return isinstance(e, ast.Attribute) and e.attr in ("modes", "_modes") and isinstance(e.value, ast.Name) and e.value.id != "self" \
        and (base is None or e.value.id == base)


class ModesTaint:
    def __init__(self, fn: FuncInfo, tainted_params: Set[str], base: Optional[str] = None):
        self.fn = fn
        self.base = base
        self.t: Set[str] = set(tainted_params)
        self.comp: Set[str] = set()
        changed = True
        while changed:
            changed = False
            for n in walk_no_nested(fn.node):
                tgt = val = None
                if isinstance(n, ast.Assign) and len(n.targets) == 1 and isinstance(n.targets[0], ast.Name):
                    tgt, val = n.targets[0].id, n.value
                elif isinstance(n, ast.AnnAssign) and isinstance(n.target, ast.Name) and n.value is not None:
                    tgt, val = n.target.id, n.value
                if tgt is not None:
                    if tgt not in self.t and self.derived(val):
                        self.t.add(tgt)
                        changed = True
                    if tgt not in self.comp and self.complement(val):
                        self.comp.add(tgt)
                        changed = True

    def derived(self, e: ast.AST) -> bool:
        """The expression denotes the requested mode tuple itself, re-wrapped or mapped elementwise with its order
        kept (2 * modes, 2 * modes + 1, concatenations / lists of such images)."""
        if _is_modes_source(e, self.base):
            return True
        if isinstance(e, ast.Name):
            return e.id in self.t
        if isinstance(e, ast.Call):
            nm = (dotted(e.func) or "").split(".")[-1]
            if nm in ORDER_KEEPING and e.args:
                return self.derived(e.args[0])
            if nm in ("concatenate", "hstack", "stack", "column_stack", "ravel", "flatten", "reshape") and e.args:
                return self.derived(e.args[0])
        if isinstance(e, ast.Subscript) and isinstance(e.slice, ast.Slice) and e.slice.step is None:
            return self.derived(e.value)   # a prefix / suffix of the tuple keeps its order
        if isinstance(e, ast.BinOp) and isinstance(e.op, (ast.Add, ast.Sub, ast.Mult)):
            l, r = self.derived(e.left), self.derived(e.right)
            const = lambda x: isinstance(x, ast.Constant) or (isinstance(x, ast.Name) and x.id not in self.t)  # noqa: E731
            return (l and (const(e.right) or r)) or (r and const(e.left))
        if isinstance(e, (ast.List, ast.Tuple)) and e.elts:
            return all(self.derived(x) for x in e.elts)
        return False

    def complement(self, e: ast.AST) -> bool:
        """e = get_auxiliary_modes(d, M) / x._get_auxiliary_modes(M) / np.delete(np.arange(d), M): the ascending complement of M."""
        if isinstance(e, ast.Name):
            return e.id in self.comp
        if isinstance(e, ast.Call):
            nm = (dotted(e.func) or "").split(".")[-1]
            if nm in ("get_auxiliary_modes", "_get_auxiliary_modes") and e.args and self.derived(e.args[-1]):
                return True
            if nm == "delete" and len(e.args) == 2 and isinstance(e.args[0], ast.Call) and (dotted(e.args[0].func) or "").endswith("arange") \
                    and self.derived(e.args[1]):
                return True
            if nm in ORDER_KEEPING and e.args:
                return self.complement(e.args[0])
        return False

    def destroyed(self, e: ast.AST) -> Optional[str]:
        """e = sorted(M) / np.sort(M) / np.unique(M) / set(M) [possibly wrapped in tuple/list] with M derived, or the
        complement of the complement of M (which is M in ascending order)."""
        # set arithmetic on a set of the tuple: set(M) - other, set(M) & other ...
        if isinstance(e, ast.BinOp) and isinstance(e.op, (ast.Sub, ast.BitAnd, ast.BitOr, ast.BitXor)):
            d = self.destroyed(e.left)
            if d in ("set", "frozenset"):
                return "set"
        # an elementwise image of a sorted tuple (np.sort(M) - np.arange(len(M)), 2 * sorted(M)) is as order-destroyed as the sorted tuple
        if isinstance(e, ast.BinOp) and isinstance(e.op, (ast.Add, ast.Sub, ast.Mult)):
            for side in (e.left, e.right):
                d = self.destroyed(side)
                if d and d not in ("set", "frozenset"):
                    return d
        if isinstance(e, ast.Call):
            nm = (dotted(e.func) or "").split(".")[-1]
            if nm in ORDER_DESTROYING and e.args and self.derived(e.args[0]):
                return nm
            if nm in ("get_auxiliary_modes", "_get_auxiliary_modes") and e.args and self.complement(e.args[-1]):
                return "complement-of-the-complement (ascending)"
            if nm == "delete" and len(e.args) == 2 and self.complement(e.args[1]):
                return "complement-of-the-complement (ascending)"
            if nm in ORDER_KEEPING and e.args:
                return self.destroyed(e.args[0])
        return None


AGGREGATES = {"len", "min", "max", "sum", "set", "frozenset", "amin", "amax"}


def _aggregate_names(fn: FuncInfo, mt: "ModesTaint") -> Set[str]:
    """Names bound to len(M) / min(M) / max(M) ... of the requested mode tuple (also through tuple assignment)."""
    out: Set[str] = set()

    def is_agg(e: ast.AST) -> bool:
        return isinstance(e, ast.Call) and (dotted(e.func) or "").split(".")[-1] in AGGREGATES and bool(e.args) and mt.derived(e.args[0])

    for n in walk_no_nested(fn.node):
        if isinstance(n, ast.Assign) and len(n.targets) == 1:
            t, v = n.targets[0], n.value
            if isinstance(t, ast.Name) and is_agg(v):
                out.add(t.id)
            if isinstance(t, ast.Tuple) and isinstance(v, ast.Tuple) and len(t.elts) == len(v.elts):
                for a, b in zip(t.elts, v.elts):
                    if isinstance(a, ast.Name) and is_agg(b):
                        out.add(a.id)
    return out


def _uses_modes_directly(e: ast.AST, mt: "ModesTaint", depth: int = 0) -> bool:
    """The expression mentions the mode tuple other than as the argument of len/min/max/sum/set(...) - directly or through a
    local that was computed from it."""
    if depth < 3:
        for n in ast.walk(e):
            if isinstance(n, ast.Name) and isinstance(n.ctx, ast.Load) and not mt.derived(n):
                defs = [a.value for a in walk_no_nested(mt.fn.node) if isinstance(a, ast.Assign) and len(a.targets) == 1
                        and isinstance(a.targets[0], ast.Name) and a.targets[0].id == n.id]
                if len(defs) == 1 and defs[0] is not e and _uses_modes_directly(defs[0], mt, depth + 1):
                    return True
    parents: Dict[int, ast.AST] = {}
    for n in ast.walk(e):
        for c in ast.iter_child_nodes(n):
            parents[id(c)] = n
    for n in ast.walk(e):
        if isinstance(n, (ast.Name, ast.Attribute)) and mt.derived(n):
            p = parents.get(id(n))
            if isinstance(p, ast.Attribute):
                continue
            if isinstance(p, ast.Call) and (dotted(p.func) or "").split(".")[-1] in AGGREGATES and n in p.args:
                continue
            return True
    return False


def _following(fn: FuncInfo, node: ast.stmt) -> List[ast.stmt]:
    """The statements that follow `node` in the statement list that contains it."""
    for parent in ast.walk(fn.node):
        for field in ("body", "orelse", "finalbody"):
            lst = getattr(parent, field, None)
            if isinstance(lst, list) and node in lst:
                return lst[lst.index(node) + 1:]
    return []


def _order_insensitive_test(test: ast.AST, mt: "ModesTaint", agg: Set[str]) -> bool:
    """The test mentions the mode tuple, but only inside len/min/max/sum/set(...) or through names bound to those."""
    mentions = False
    # len(M) compared with the constant 0 or 1: a tuple with at most one element has one order
    if isinstance(test, ast.Compare) and len(test.ops) == 1:
        for a, b in ((test.left, test.comparators[0]), (test.comparators[0], test.left)):
            if isinstance(b, ast.Constant) and isinstance(b.value, int) and b.value in (0, 1) and isinstance(a, ast.Call) \
                    and (dotted(a.func) or "") == "len":
                return False
    parents: Dict[int, ast.AST] = {}
    for n in ast.walk(test):
        for c in ast.iter_child_nodes(n):
            parents[id(c)] = n
    for n in ast.walk(test):
        if isinstance(n, ast.Name) and n.id in agg:
            mentions = True
        if isinstance(n, (ast.Name, ast.Attribute)) and mt.derived(n):
            p = parents.get(id(n))
            if isinstance(p, ast.Attribute):
                continue  # instruction.modes: the Attribute node itself is visited
            if isinstance(p, ast.Call) and (dotted(p.func) or "").split(".")[-1] in AGGREGATES and n in p.args:
                mentions = True
                continue
            return False
    return mentions


def run(ctx: Context) -> None:
    idx = get_index(ctx.repo)
    reg = get_registry(idx)
    res = get_resolver(idx)
    _explain(ctx)
    roots: List[Tuple[FuncInfo, Set[str]]] = []
    for s in reg.simulators:
        for st in s.steps():
            roots.append((st, set()))
            for loc in res.local_defs(st).values():
                roots.append((loc, set()))
        if s.state_class is not None:
            for c in [s.state_class] + s.state_class.mro():
                for m in c.methods.values():
                    roots.append((m, {p for p in m.all_params() if p in ("modes", "mode")}))
    # program composition and the simulator's own handling of the mode tuple (anchors api/program.py, api/simulator.py)
    for mod, cname in (("piquasso.api.program", "Program"), ("piquasso.api.simulator", "Simulator"), ("piquasso.api.instruction", "Instruction")):
        c = idx.find_class(mod, cname)
        for m in c.methods.values():
            # `active_modes` is the simulator's own position-bearing tuple (positions are looked up with .index)
            roots.append((m, {p for p in m.all_params() if p in ("modes", "mode", "active_modes", "modes_to_remap")}))
    # helpers that receive a tuple of mode labels under a name that says so (`postselected_modes`, `measured_modes`, ...): the same
    # order discipline applies to them wherever they are called from
    for fn_ in idx.all_functions():
        extra = {p_ for p_ in fn_.all_params() if p_.endswith("_modes") and p_ not in ("active_modes", "modes_to_remap")}
        if extra and fn_.module.name.startswith("piquasso."):
            roots.append((fn_, extra))
    n_funcs, n_uses = scan_order(ctx, res, roots, "C16a", "C16b")
    ctx.count("functions examined", n_funcs)
    ctx.require_floor("functions examined", n_funcs, 150)
    ctx.require_floor("uses of the requested mode tuple followed", n_uses, 150)
    parallel_projections(ctx, idx, reg)
    renumbering_loops(ctx, idx)
    mode_masks(ctx, idx, res, reg)
    chained_reductions(ctx, idx)
    ctx.obligation("C16a", "package|fullness-tests-order-sensitive", not any(f.rule == "C16a" for f in ctx.findings))
    ctx.obligation("C16b", "package|mode-order-kept", not any(f.rule == "C16b" for f in ctx.findings))


def _explain(ctx: Context) -> None:
    ctx.explanation = (
        "Order-preservation rule on the dataflow of the requested mode tuple: names derived from instruction.modes are "
        "followed through the steps, the state methods and the helpers that receive them (by the callee's parameter), "
        "and two deny patterns are searched: a permutation-blind fullness comparison of set(modes) with set(range(...)), "
        "and a sorted/unique/set round trip of the tuple that is bound, passed on or returned. Decides this necessary "
        "clause; it does not decide permutation covariance of the computed index lists."
        " Further deny patterns: order-insensitive shortcuts, sequential positional edits in loops over the tuple, renumbering loops, mode masks, "
        "double relabelling of a reduced state, elementwise images of a sorted tuple."
    )
    ctx.rule("C16a", "no fullness test of the requested modes is permutation-blind (set(modes) vs set(range(...)))")
    ctx.rule("C16b", "the requested mode tuple is never replaced by a sorted/unique/set version of itself")


def scan_order(ctx: Context, res, roots, rule_a: str, rule_b: str) -> Tuple[int, int]:
    """Follow the requested mode tuple from the roots through callees; report the two deny patterns."""
    work = list(roots)
    seen: Dict[int, Set[str]] = {}
    n_funcs = 0
    n_tainted_uses = 0
    while work:
        fn, tp = work.pop()
        prev = seen.get(id(fn.node))
        if prev is not None and tp <= prev:
            continue
        seen[id(fn.node)] = (prev or set()) | tp
        tp = seen[id(fn.node)]
        mt = ModesTaint(fn, tp)
        n_funcs += 1
        bases = sorted({x.value.id for x in walk_no_nested(fn.node) if _is_modes_source(x)})
        per_base = [mt] if len(bases) < 2 else [ModesTaint(fn, set(), b) for b in bases]
        for n in walk_no_nested(fn.node):
            # (a) fullness tests
            if isinstance(n, ast.Compare) and len(n.ops) == 1 and isinstance(n.ops[0], (ast.Eq, ast.NotEq)):
                sides = [n.left, n.comparators[0]]

                def is_set_of_modes(e):
                    return isinstance(e, ast.Call) and dotted(e.func) in ("set", "frozenset") and e.args and mt.derived(e.args[0])

                def is_full_range(e):
                    return isinstance(e, ast.Call) and dotted(e.func) in ("set", "frozenset") and e.args and isinstance(e.args[0], ast.Call) \
                        and dotted(e.args[0].func) == "range"

                if (is_set_of_modes(sides[0]) and is_full_range(sides[1])) or (is_set_of_modes(sides[1]) and is_full_range(sides[0])):
                    key = f"{fn.qualname}|{norm(n)}"
                    ctx.violation(rule_a, key, fn.file, n.lineno,
                                  f"`{norm(n)}` decides whether all modes are addressed without looking at their order: "
                                  f"Q(1, 0) and Q(0, 1) take the same path, so the outcome tuples (or the reduced state) come out in "
                                  f"natural mode order instead of the requested order", norm(n))
                # order-sensitive fullness tests are what the rule wants; record them
                if any(mt.derived(s) for s in sides) and any(isinstance(s, ast.Call) and "range" in norm(s) for s in sides):
                    ctx.instance(rule_a, f"{fn.qualname}|{norm(n)}", "order-sensitive", f"{ctx.relpath(fn.file)}:{n.lineno}")
            # (a') a length-based fullness test that bypasses the mode tuple: `x if len(modes) == d else f(modes)`
            if isinstance(n, (ast.IfExp, ast.If)):
                t = n.test
                if isinstance(t, ast.Compare) and len(t.ops) == 1 and isinstance(t.ops[0], (ast.Eq, ast.NotEq)):
                    sides = [t.left, t.comparators[0]]
                    lens = [x for x in sides if isinstance(x, ast.Call) and dotted(x.func) == "len" and x.args and mt.derived(x.args[0])]
                    dims = [x for x in sides if (isinstance(x, ast.Attribute) and x.attr in ("d", "_d")) or (isinstance(x, ast.Name) and x.id == "d")]
                    if lens and dims:
                        full = (n.body if isinstance(t.ops[0], ast.Eq) else n.orelse)
                        partial_ = (n.orelse if isinstance(t.ops[0], ast.Eq) else n.body)
                        full_nodes = [full] if isinstance(full, ast.AST) else list(full)
                        part_nodes = [partial_] if isinstance(partial_, ast.AST) else list(partial_)

                        def uses_modes(nodes):
                            return any(isinstance(x, ast.AST) and mt.derived(x) for b in nodes for x in ast.walk(b))

                        if part_nodes and uses_modes(part_nodes) and full_nodes and not uses_modes(full_nodes):
                            key = f"{fn.qualname}|{norm(t)}"
                            ctx.violation(rule_a, key, fn.file, n.lineno,
                                          f"`{norm(t)}` decides by the *number* of modes that all modes are addressed and then ignores the mode "
                                          f"tuple on that branch: a permutation such as Q(2, 0, 1) is treated like Q(0, 1, 2), so outcomes / "
                                          f"reduced states come out in natural mode order", norm(n).split("\n")[0][:110])
            # (a'') an order-insensitive test (len / min / max / sum / set of the mode tuple) that selects between a value
            #       computed from the mode tuple and a substitute computed without it (both branches bind the same name)
            mt0 = mt
            for mt in per_base:
              if isinstance(n, (ast.IfExp, ast.If)):
                agg = _aggregate_names(fn, mt)
                if _order_insensitive_test(n.test, mt, agg):
                    pairs: List[Tuple[ast.AST, ast.AST]] = []
                    if isinstance(n, ast.IfExp):
                        pairs.append((n.body, n.orelse))
                    else:
                        def binds(stmts):
                            out = {}
                            for st in stmts:
                                if isinstance(st, ast.Assign) and len(st.targets) == 1 and isinstance(st.targets[0], ast.Name):
                                    out[st.targets[0].id] = st.value
                                elif isinstance(st, ast.AnnAssign) and isinstance(st.target, ast.Name) and st.value is not None:
                                    out[st.target.id] = st.value
                            return out
                        b1, b2 = binds(n.body), binds(n.orelse)
                        for k_ in sorted(set(b1) & set(b2)):
                            pairs.append((b1[k_], b2[k_]))
                        # `if test: return A` with the alternative returned by the else branch or by the statements that follow
                        def ret_of(stmts):
                            for st in stmts:
                                if isinstance(st, ast.Return) and st.value is not None:
                                    return st.value
                                if isinstance(st, (ast.If, ast.For, ast.While, ast.Try, ast.With)):
                                    return None
                            return None
                        r1 = ret_of(n.body)
                        r2 = ret_of(n.orelse) if n.orelse else ret_of(_following(fn, n))
                        if r1 is not None and r2 is not None:
                            pairs.append((r1, r2))
                    for e1, e2 in pairs:
                        u1 = _uses_modes_directly(e1, mt)
                        u2 = _uses_modes_directly(e2, mt)
                        if u1 != u2:
                            sub = e2 if u1 else e1
                            key = f"{fn.qualname}|{norm(n.test)}"
                            if not any(f.rule == rule_a and f.key == f"{rule_a}|{key}" for f in ctx.findings):
                                ctx.violation(rule_a, key, fn.file, n.lineno,
                                              f"`{norm(n.test)}` looks only at order-insensitive aggregates of the mode tuple (its length / smallest / largest "
                                              f"element) and then replaces the value computed from the mode tuple by `{norm(sub)[:60]}`, which ignores the "
                                              f"order of the modes: Q(1, 0) is treated like Q(0, 1)", norm(n).split("\n")[0][:110])
            mt = mt0
            # (c) sequential positional edits: inside `for m in modes` (also through zip / enumerate) an np.insert / np.delete /
            #     list.insert / pop at position m on an object that is carried from one iteration to the next - every edit
            #     shifts the later positions, so the result depends on the order of the mode tuple (right for ascending modes only)
            if isinstance(n, ast.For):
                it = n.iter
                if isinstance(it, ast.Call) and (dotted(it.func) or "") == "reversed" and len(it.args) == 1:
                    it = it.args[0]   # the reverse of the order the user wrote is as order-dependent as the order itself
                srcs: List[Tuple[ast.AST, ast.AST]] = []
                if mt.derived(it):
                    srcs.append((n.target, it))
                elif isinstance(it, ast.Call) and (dotted(it.func) or "") in ("zip", "enumerate") and isinstance(n.target, ast.Tuple):
                    if dotted(it.func) == "zip" and len(it.args) == len(n.target.elts):
                        srcs += [(t, a) for t, a in zip(n.target.elts, it.args) if mt.derived(a)]
                    elif dotted(it.func) == "enumerate" and it.args and mt.derived(it.args[0]) and len(n.target.elts) == 2:
                        srcs.append((n.target.elts[1], it.args[0]))
                loop_vars = {t.id for t, _ in srcs if isinstance(t, ast.Name)}
                if loop_vars:
                    for c in [x for b in n.body for x in ast.walk(b) if isinstance(x, ast.Call)]:
                        nm_ = (dotted(c.func) or "").split(".")[-1] or (c.func.attr if isinstance(c.func, ast.Attribute) else "")
                        pos = obj = None
                        if nm_ in ("insert", "delete") and isinstance(c.func, ast.Attribute) and (dotted(c.func.value) or "").split(".")[-1] in ("np", "numpy", "fallback_np") \
                                and len(c.args) >= 2:
                            obj, pos = c.args[0], c.args[1]
                        elif nm_ in ("insert", "pop") and isinstance(c.func, ast.Attribute) and c.args:
                            obj, pos = c.func.value, c.args[0]
                        if pos is not None and any(isinstance(x_, ast.Name) and x_.id in loop_vars for x_ in ast.walk(pos)) and isinstance(obj, ast.Name):
                            key = f"{fn.qualname}|sequential {nm_} at positions from the mode tuple"
                            ctx.violation(rule_b, key, fn.file, c.lineno,
                                          f"`{norm(c)[:80]}` edits `{obj.id}` at a position taken from the mode tuple inside a loop over the mode tuple: every "
                                          f"edit shifts the later positions, so the result is right for ascending modes only (Q(2, 0) differs from Q(0, 2))",
                                          norm(c)[:100])
                    # `del obj[m]` is the statement form of the same edit
                    for dl in [x for b in n.body for x in ast.walk(b) if isinstance(x, ast.Delete)]:
                        for t in dl.targets:
                            if isinstance(t, ast.Subscript) and isinstance(t.value, ast.Name) and not isinstance(t.slice, ast.Slice) \
                                    and any(isinstance(x_, ast.Name) and x_.id in loop_vars for x_ in ast.walk(t.slice)):
                                key = f"{fn.qualname}|sequential del at positions from the mode tuple"
                                ctx.violation(rule_b, key, fn.file, dl.lineno,
                                              f"`{norm(dl)[:80]}` deletes from `{t.value.id}` at a position taken from the mode tuple inside a loop over the mode "
                                              f"tuple (in the order the user wrote it, or its reverse): every deletion shifts the later positions, so the result "
                                              f"is right for ascending modes only (Q(2, 0) differs from Q(0, 2)); iterate `sorted(..., reverse=True)` instead",
                                              norm(dl)[:100])
            # (b) destroyed order that is bound / passed / returned
            cand: List[Tuple[ast.AST, str]] = []
            if isinstance(n, ast.Assign):
                cand.append((n.value, "bound to `%s`" % norm(n.targets[0])))
            elif isinstance(n, ast.AnnAssign) and n.value is not None:
                cand.append((n.value, "bound to `%s`" % norm(n.target)))
            elif isinstance(n, ast.Return) and n.value is not None:
                cand.append((n.value, "returned"))
            elif isinstance(n, ast.Call):
                for a in list(n.args) + [k.value for k in n.keywords]:
                    cand.append((a, f"passed to {norm(n.func)}"))
            elif isinstance(n, ast.Subscript):
                cand.append((n.slice, "used as an index"))
            for e, how in cand:
                if isinstance(n, ast.Call) and (dotted(n.func) or "").split(".")[-1] in (ORDER_KEEPING | {"len", "set", "frozenset"}):
                    continue
                d = mt.destroyed(e)
                if d in ("set", "frozenset") and how.startswith("passed to") and any(x in how for x in (".intersection", ".issubset", ".isdisjoint", ".union", ".difference")):
                    continue
                if d:
                    key = f"{fn.qualname}|{norm(e)}"
                    ctx.violation(rule_b, key, fn.file, n.lineno,
                                  f"`{norm(e)}` replaces the requested mode tuple by a {d}-ordered version that is {how}: the order in which "
                                  f"the user addressed the modes is lost", norm(e))
            if isinstance(n, ast.Name) and n.id in mt.t and isinstance(n.ctx, ast.Load):
                n_tainted_uses += 1
        # propagate into callees through arguments
        for c in [x for x in walk_no_nested(fn.node) if isinstance(x, ast.Call)]:
            targets = res.resolve_call(fn, c)
            if not targets:
                continue
            for t in targets:
                params = t.params()
                off = 1 if (t.cls is not None and params and params[0] in ("self", "cls") and isinstance(c.func, ast.Attribute)) else 0
                tp2: Set[str] = set()
                for i, a in enumerate(c.args):
                    if mt.derived(a) and i + off < len(params):
                        tp2.add(params[i + off])
                for kw in c.keywords:
                    if kw.arg and mt.derived(kw.value) and kw.arg in t.all_params():
                        tp2.add(kw.arg)
                if tp2 or id(t.node) not in seen:
                    work.append((t, tp2))
    return n_funcs, n_tainted_uses


def renumbering_loops(ctx: Context, idx) -> None:
    """`for p in COLLECTION: A[A >= p] += 1` renumbers positions cumulatively (re-inserting removed modes, or removing them with
    `A[A > p] -= 1`): each step changes what the next comparison sees, so the result is right only when the collection is visited
    in ascending order - it must be iterated through `sorted(...)`."""
    ctx.rule("C16c", "a loop that renumbers mode positions cumulatively (`A[A >= p] += 1` for p in a collection of modes) iterates the collection sorted")
    n = 0
    for fn in idx.all_functions():
        if not fn.module.name.startswith("piquasso."):
            continue
        for loop in walk_no_nested(fn.node):
            if not isinstance(loop, ast.For) or not isinstance(loop.target, ast.Name):
                continue
            v = loop.target.id
            for st in loop.body:
                if isinstance(st, ast.AugAssign) and isinstance(st.op, (ast.Add, ast.Sub)) and isinstance(st.target, ast.Subscript) \
                        and isinstance(st.target.slice, ast.Compare) and len(st.target.slice.ops) == 1 \
                        and isinstance(st.target.slice.ops[0], (ast.GtE, ast.Gt, ast.LtE, ast.Lt)) \
                        and norm(st.target.slice.left) == norm(st.target.value) \
                        and isinstance(st.target.slice.comparators[0], ast.Name) and st.target.slice.comparators[0].id == v:
                    n += 1
                    it = loop.iter
                    is_sorted = isinstance(it, ast.Call) and (dotted(it.func) or "").split(".")[-1] in ("sorted", "sort", "unique")
                    key = f"{fn.qualname}|renumbering loop over {norm(it)[:40]}"
                    ctx.obligation("C16c", key, is_sorted, f"{ctx.relpath(fn.file)}:{loop.lineno}")
                    if not is_sorted:
                        ctx.violation("C16c", key, fn.file, loop.lineno,
                                      f"`{norm(st)[:60]}` renumbers positions cumulatively for every element of `{norm(it)[:40]}`, which is not visited in "
                                      f"sorted order: when the modes were registered in another order (post-selections on mode 3 and then on mode 1) "
                                      f"the positions are mapped to the wrong modes", norm(loop).split("\n")[0][:100])
    ctx.require_floor("C16c cumulative renumbering loops", n, 1)


def mode_masks(ctx: Context, idx, res, reg) -> None:
    """A boolean mask `mask[modes] = True` forgets the order of the mode tuple; selecting or storing per-mode data through it
    (`basis[:, mask] = values_in_requested_order`) places the data in ascending mode order."""
    ctx.rule("C16d", "no per-mode data is stored or selected through a boolean mask built from the requested mode tuple")
    n_masks = 0
    for fn in idx.all_functions():
        if not fn.module.name.startswith("piquasso."):
            continue
        mt = ModesTaint(fn, {p for p in fn.all_params() if p in ("modes", "mode")})
        bools: Set[str] = set()
        for n in walk_no_nested(fn.node):
            if isinstance(n, ast.Assign) and len(n.targets) == 1 and isinstance(n.targets[0], ast.Name) and isinstance(n.value, ast.Call) \
                    and (dotted(n.value.func) or "").split(".")[-1] in ("zeros", "ones", "full") \
                    and any(k.arg == "dtype" and norm(k.value) in ("bool", "np.bool_", "numpy.bool_") for k in n.value.keywords):
                bools.add(n.targets[0].id)
        masks: Set[str] = set()
        for n in walk_no_nested(fn.node):
            if isinstance(n, ast.Assign) and len(n.targets) == 1 and isinstance(n.targets[0], ast.Subscript) \
                    and isinstance(n.targets[0].value, ast.Name) and n.targets[0].value.id in bools:
                sl = n.targets[0].slice
                elts = sl.elts if isinstance(sl, ast.Tuple) else [sl]
                if any(mt.derived(e) for e in elts):
                    masks.add(n.targets[0].value.id)
        # membership masks: np.isin(np.arange(d), modes) / np.in1d(...)
        for n in walk_no_nested(fn.node):
            if isinstance(n, ast.Assign) and len(n.targets) == 1 and isinstance(n.targets[0], ast.Name) and isinstance(n.value, ast.Call) \
                    and (dotted(n.value.func) or "").split(".")[-1] in ("isin", "in1d") and len(n.value.args) >= 2 and mt.derived(n.value.args[1]):
                masks.add(n.targets[0].id)
        # the complement of the mask of the complement is a mask of the mode tuple too: `aux[get_auxiliary_modes(d, modes)] = True;
        # active = ~aux` (also np.logical_not / np.invert)
        comp_masks: Set[str] = set()
        for n in walk_no_nested(fn.node):
            if isinstance(n, ast.Assign) and len(n.targets) == 1 and isinstance(n.targets[0], ast.Subscript) \
                    and isinstance(n.targets[0].value, ast.Name) and n.targets[0].value.id in bools:
                sl = n.targets[0].slice
                elts = sl.elts if isinstance(sl, ast.Tuple) else [sl]
                if any(mt.complement(e) for e in elts):
                    comp_masks.add(n.targets[0].value.id)
        for n in walk_no_nested(fn.node):
            if isinstance(n, ast.Assign) and len(n.targets) == 1 and isinstance(n.targets[0], ast.Name):
                v = n.value
                neg = v.operand if isinstance(v, ast.UnaryOp) and isinstance(v.op, ast.Invert) else (
                    v.args[0] if isinstance(v, ast.Call) and (dotted(v.func) or "").split(".")[-1] in ("logical_not", "invert") and v.args else None)
                if isinstance(neg, ast.Name) and neg.id in comp_masks:
                    masks.add(n.targets[0].id)
        inline_masks = any(isinstance(c_, ast.Call) and (dotted(c_.func) or "").split(".")[-1] in ("isin", "in1d") and len(c_.args) >= 2 and mt.derived(c_.args[1])
                           for c_ in walk_no_nested(fn.node))
        if not masks and not inline_masks:
            continue
        n_masks += len(masks) + (1 if inline_masks and not masks else 0)
        for n in walk_no_nested(fn.node):
            if isinstance(n, ast.Assign) and len(n.targets) == 1 and isinstance(n.targets[0], ast.Subscript):
                t = n.targets[0]
                sl = t.slice.elts if isinstance(t.slice, ast.Tuple) else [t.slice]
                used = [e for e in sl if isinstance(e, ast.Name) and e.id in masks]
                if used and not isinstance(n.value, ast.Constant) and not (isinstance(t.value, ast.Name) and t.value.id in masks):
                    key = f"{fn.qualname}|store through the mode mask {used[0].id}"
                    ctx.violation("C16d", key, fn.file, n.lineno,
                                  f"`{norm(n)[:80]}` stores per-mode data through the boolean mask `{used[0].id}` built from the mode tuple: the mask "
                                  f"enumerates the modes in ascending order, so for Q(2, 0) the values end up on the wrong modes", norm(n)[:100])
        # selections: `basis[:, mask]` lists the selected modes in ascending order; the result is per-mode data in another order than requested
        for n in walk_no_nested(fn.node):
            if isinstance(n, ast.Subscript) and isinstance(n.ctx, ast.Load) and not (isinstance(n.value, ast.Name) and n.value.id in masks):
                sl = n.slice.elts if isinstance(n.slice, ast.Tuple) else [n.slice]
                used = [e for e in sl if (isinstance(e, ast.Name) and e.id in masks) or (
                    isinstance(e, ast.Call) and (dotted(e.func) or "").split(".")[-1] in ("isin", "in1d") and len(e.args) >= 2 and mt.derived(e.args[1]))]
                if used:
                    key = f"{fn.qualname}|selection through the mode mask {norm(used[0])[:30]}"
                    ctx.violation("C16d", key, fn.file, n.lineno,
                                  f"`{norm(n)[:80]}` selects per-mode data through the boolean mask `{norm(used[0])[:40]}` built from the mode tuple: the "
                                  f"selection lists the modes in ascending order, so for Q(3, 1) the occupation numbers come out as (mode 1, mode 3)",
                                  norm(n)[:100])
    ctx.count("C16d boolean masks built from a mode tuple", n_masks)


def parallel_projections(ctx: Context, idx, reg) -> None:
    """Sibling accessors that project one mapping attribute (keys in one method, values in another) are zipped by their
    consumers, so they must traverse the mapping in the same order: a sorted key projection next to an insertion-order
    value projection attaches the values to the wrong modes whenever the insertions were not ascending."""
    n = 0
    classes = []
    for s in reg.simulators:
        if s.state_class is not None:
            for c in [s.state_class] + s.state_class.mro():
                if c not in classes:
                    classes.append(c)
    for c in classes:
        kinds: Dict[str, Dict[str, List[Tuple[FuncInfo, ast.AST]]]] = {}
        for m in c.methods.values():
            for r in ast.walk(m.node):
                if not isinstance(r, ast.Return) or r.value is None:
                    continue
                for x in ast.walk(r.value):
                    attr = kind = None
                    if isinstance(x, ast.Call):
                        nm = dotted(x.func) or ""
                        if isinstance(x.func, ast.Attribute) and x.func.attr in ("keys", "values") and isinstance(x.func.value, ast.Attribute) \
                                and isinstance(x.func.value.value, ast.Name) and x.func.value.value.id == "self":
                            attr, kind = x.func.value.attr, x.func.attr + "-insertion"
                        if nm == "sorted" and x.args:
                            a = x.args[0]
                            if isinstance(a, ast.Call) and isinstance(a.func, ast.Attribute) and a.func.attr in ("keys",):
                                a = a.func.value
                            if isinstance(a, ast.Attribute) and isinstance(a.value, ast.Name) and a.value.id == "self":
                                attr, kind = a.attr, "keys-sorted"
                    if attr:
                        kinds.setdefault(attr, {}).setdefault(kind, []).append((m, x))
        for attr, ks in kinds.items():
            # a sorted(self.A.keys()) also contains a .keys() call: drop the insertion record of the same node span
            if "keys-sorted" in ks and "keys-insertion" in ks:
                sorted_lines = {x.lineno for _, x in ks["keys-sorted"]}
                ks["keys-insertion"] = [(m, x) for m, x in ks["keys-insertion"] if x.lineno not in sorted_lines]
                if not ks["keys-insertion"]:
                    del ks["keys-insertion"]
            if "values-insertion" in ks or "keys-sorted" in ks:
                n += 1
                bad = "keys-sorted" in ks and "values-insertion" in ks
                key = f"{c.qualname}|parallel projections of self.{attr}"
                ctx.instance("C16b", key, "VIOLATION" if bad else "ok", kinds=sorted(ks))
                if bad:
                    m, x = ks["keys-sorted"][0]
                    m2, _ = ks["values-insertion"][0]
                    ctx.violation("C16b", key, m.file, x.lineno,
                                  f"{c.name}.{m.name} returns the keys of self.{attr} sorted while {c.name}.{m2.name} returns its values in "
                                  f"insertion order: consumers zip the two, so values are attached to the wrong modes when the entries were "
                                  f"not registered in ascending mode order", norm(x))
    ctx.count("mapping attributes with parallel key/value projections", n)


def chained_reductions(ctx: Context, idx) -> None:
    """C16e: `state.reduced(A)` renumbers the kept modes 0 .. len(A)-1.  A second reduction (or any other mode-addressed call) on the
    reduced state must therefore be given positions within A, never the original labels again: `state.reduced(modes).reduced(modes[:k])`
    applies the relabelling twice and is right only for modes = (0, 1, ..., k-1)."""
    ctx.rule("C16e", "a state reduced to the measured modes is never addressed again with the original mode labels (no double relabelling)")
    n_red = 0
    for fn in idx.all_functions():
        if not any(isinstance(c, ast.Call) and isinstance(c.func, ast.Attribute) and c.func.attr == "reduced" for c in ast.walk(fn.node)):
            continue
        # names that hold original mode labels: bound from `<x>.modes`, parameters called modes, and slices / re-wrappings of those
        labels: Set[str] = {a.arg for a in ast.walk(fn.node) if isinstance(a, ast.arg) and a.arg in ("modes",)}
        changed = True
        assigns = [a for a in ast.walk(fn.node) if isinstance(a, ast.Assign) and len(a.targets) == 1 and isinstance(a.targets[0], ast.Name)]

        def has_label(e: ast.AST) -> bool:
            for x in ast.walk(e):
                if isinstance(x, ast.Attribute) and x.attr == "modes" and not (isinstance(x.value, ast.Name) and x.value.id == "self" and False):
                    return True
                if isinstance(x, ast.Name) and x.id in labels:
                    return True
            return False

        def is_rewrap(e: ast.AST) -> bool:
            """tuple(...)/list(...)/slice/index selection/concatenation of label data - still labels (not positions, not counts)"""
            if isinstance(e, ast.Name):
                return e.id in labels
            if isinstance(e, ast.Attribute):
                return e.attr == "modes"
            if isinstance(e, ast.Subscript):
                return is_rewrap(e.value)
            if isinstance(e, ast.Call) and (dotted(e.func) or "").split(".")[-1] in ("tuple", "list", "array", "asarray") and e.args:
                return is_rewrap(e.args[0])
            if isinstance(e, ast.BinOp) and isinstance(e.op, ast.Add):
                return is_rewrap(e.left) and is_rewrap(e.right)
            return False

        while changed:
            changed = False
            for a in assigns:
                if a.targets[0].id not in labels and is_rewrap(a.value):
                    labels.add(a.targets[0].id)
                    changed = True
        reduced_locals: Dict[str, ast.Call] = {}
        for a in assigns:
            v = a.value
            if isinstance(v, ast.Call) and isinstance(v.func, ast.Attribute) and v.func.attr == "reduced" and v.args and is_rewrap(v.args[0]):
                reduced_locals[a.targets[0].id] = v
        n_red += sum(1 for c in ast.walk(fn.node) if isinstance(c, ast.Call) and isinstance(c.func, ast.Attribute) and c.func.attr == "reduced")
        if not reduced_locals:
            continue
        nested = {f.name: f for f in ast.walk(fn.node) if isinstance(f, ast.FunctionDef) and f is not fn.node}

        def param_gets_labels(fdef: ast.FunctionDef, pname: str) -> bool:
            pos = [a.arg for a in fdef.args.args]
            for c in ast.walk(fn.node):
                if isinstance(c, ast.Call) and isinstance(c.func, ast.Name) and c.func.id == fdef.name:
                    for i, a in enumerate(c.args):
                        if i < len(pos) and pos[i] == pname and is_rewrap(a):
                            return True
                    for k in c.keywords:
                        if k.arg == pname and is_rewrap(k.value):
                            return True
            return False

        for c in ast.walk(fn.node):
            if not (isinstance(c, ast.Call) and isinstance(c.func, ast.Attribute) and isinstance(c.func.value, ast.Name)
                    and c.func.value.id in reduced_locals and c.args):
                continue
            if c.func.attr not in ("reduced", "get_marginal_fock_probabilities", "mean_photon_number", "variance_photon_number",
                                   "quadratures_mean_variance", "xpxp_reduced_rotated_mean_and_covariance"):
                continue
            b = c.args[0]
            direct = is_rewrap(b)
            via = None
            if not direct and isinstance(b, ast.Name):
                for fdef in nested.values():
                    if any(x is c for x in ast.walk(fdef)) and b.id in [a.arg for a in fdef.args.args + fdef.args.kwonlyargs] and param_gets_labels(fdef, b.id):
                        via = fdef.name
            if direct or via:
                key = f"{fn.qualname}|{c.func.value.id}.{c.func.attr}({norm(b)})"
                first = reduced_locals[c.func.value.id]
                ctx.violation("C16e", key, fn.file, c.lineno,
                              f"`{c.func.value.id}` is `{norm(first)[:60]}`, whose modes are renumbered 0..k-1 in the order of the tuple; "
                              f"`{norm(c)[:70]}` addresses it with original mode labels again"
                              + (f" (the parameter `{norm(b)}` of {via} receives a slice of the mode tuple)" if via else "")
                              + ": the relabelling is applied twice, which is right only for modes (0, 1, ..., k-1)", norm(c)[:100])
    ctx.require_floor("C16e calls of reduced() examined", n_red, 10)
    ctx.obligation("C16e", "package|no-double-relabelling", not any(f.rule == "C16e" for f in ctx.findings), reduced_calls=n_red)
