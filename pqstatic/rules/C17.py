"""C17 — the fermionic simulators agree: structural necessary clauses.

(a) *adjacency discipline of the Fock representation*: the fermionic Fock simulator stores amplitudes without
    Jordan-Wigner strings, so a gate step that mixes amplitudes of different basis states is only right for
    consecutive ascending modes.  Every gate step registered in its dispatch table therefore either refuses
    non-consecutive modes (`are_modes_consecutive` test that raises, before the first write of the state vector)
    or is diagonal (every write has the form `assign(v, I, c * v[I])` with the same index expression).  Siblings
    that disagree - one checks, one does not - are the classic inconsistency signal.
(b) *passive update of the fermionic Gaussian state*: the updates of D = <a^dagger a^T> and E = <a^dagger a^dagger^T>
    in `passive_linear_gate` equal the ones derived from a' = U a (conj(U) D U^T, conj(U) E U^dagger), in the
    matrix-word algebra, and every one-sided product is written back to the selection it was read from, with
    right factors on column selections and left factors on row selections.
(c) *orthogonal congruence*: the Majorana covariance matrix is updated as K cov K^T with the same K on both
    sides (an SO(2d) action keeps it real antisymmetric with spectrum in [-i, i] only in that form).
(d) *exclusion at preparation*: every path of both `state_vector` steps that stores occupation numbers passes
    the `all_zero_or_one` test (under `config.validate`).
(e) *occupation-independent coefficients*: in a guarded (adjacent-mode) gate step of the Fock simulator the numbers
    that multiply the amplitudes read from the state vector depend on the gate parameters only - on adjacent modes
    the Jordan-Wigner strings of the two operators cancel, so a coefficient that varies with the basis state the loop
    is visiting (a sign from the occupation of other modes, say) is a different operator from the one the Gaussian
    simulator applies.  Decided by loop-invariance of the coefficient operands (fixpoint over the assignments).
(f) *exterior powers*: every implementation of `calculate_interferometer_on_fermionic_fock_space` returns, for
    particle number 0 the constant [[1]], for 1 the matrix, and for each n >= 2 an array whose value depends on the
    matrix and on the previous representation (Laplace recurrence); exactly one constant is appended and it is the
    first.  A constant for any n >= 1 drops the determinant phase the Gaussian simulator keeps.
Numerical agreement of the two representations is not decided.
"""

from __future__ import annotations

import ast
from typing import Dict, List, Optional, Tuple

from .. import cfg as cfgmod
from .. import moments as mw
from ..index import FuncInfo, dotted, get_index, norm, walk_no_nested
from ..registry import get_registry
from ..report import AnalysisError, Context

LEVEL = "other"
FOCK_SIM = "piquasso.fermionic.fock.simulator:PureFockSimulator"
GAUSS_STEPS = "piquasso.fermionic.gaussian.simulation_steps"
FOCK_STEPS = "piquasso.fermionic.fock.simulation_steps"
SV = "_state_vector"


def _sv_writes(fn: FuncInfo) -> List[ast.Assign]:
    out = []
    for n in walk_no_nested(fn.node):
        if isinstance(n, ast.Assign) and len(n.targets) == 1 and isinstance(n.targets[0], ast.Attribute) and n.targets[0].attr == SV:
            out.append(n)
    return out


def _is_diagonal_write(a: ast.Assign) -> bool:
    """state._state_vector = connector.assign(state._state_vector, I, c * state._state_vector[I])"""
    v = a.value
    if not (isinstance(v, ast.Call) and (dotted(v.func) or "").split(".")[-1] == "assign" and len(v.args) == 3):
        return False
    tgt, sel, val = v.args
    if not (isinstance(tgt, ast.Attribute) and tgt.attr == SV):
        return False

    def reads(e: ast.AST) -> List[ast.Subscript]:
        return [n for n in ast.walk(e) if isinstance(n, ast.Subscript) and isinstance(n.value, ast.Attribute) and n.value.attr == SV]

    if not (isinstance(val, ast.BinOp) and isinstance(val.op, ast.Mult)):
        return False
    rs = reads(val)
    if len(rs) != 1 or norm(rs[0].slice) != norm(sel):
        return False
    # the read is one factor of the product, the other factor does not read the state
    for side, other in ((val.left, val.right), (val.right, val.left)):
        if side is rs[0] and not reads(other):
            return True
    return False


def clause_a(ctx: Context) -> None:
    ctx.rule("C17a", "every gate step of the fermionic Fock simulator refuses non-consecutive modes before it writes the state "
                     "vector, or writes it only diagonally (assign(v, I, c * v[I]))")
    idx = get_index(ctx.repo)
    reg = get_registry(idx)
    sims = [s for s in reg.simulators if s.name == FOCK_SIM]
    if not sims:
        raise AnalysisError(f"anchor vanished: {FOCK_SIM}")
    sim = sims[0]
    gate_base = idx.find_class("piquasso.api.instruction", "Gate")
    steps: Dict[str, Tuple[FuncInfo, List[str]]] = {}
    for e in sim.entries:
        if e.instr is not None and e.step is not None and e.instr.is_subclass_of(gate_base):
            steps.setdefault(e.step.qualname, (e.step, []))[1].append(e.instr.name)
    ctx.require_floor("C17a gate steps of the fermionic Fock simulator", len(steps), 4)
    # the predicate the guards rely on looks at every element: `last - first + 1 == len` accepts (0, 2, 1, 3)
    pred = idx.find_function("piquasso._math.validations", "are_modes_consecutive")
    par = pred.params()[0]
    parents_: Dict[int, ast.AST] = {}
    for x in ast.walk(pred.node):
        for ch in ast.iter_child_nodes(x):
            parents_[id(ch)] = x
    elementwise = []
    for x in ast.walk(pred.node):
        if isinstance(x, ast.Name) and x.id == par and isinstance(x.ctx, ast.Load):
            pa = parents_.get(id(x))
            if isinstance(pa, ast.Subscript) and pa.value is x and not isinstance(pa.slice, ast.Slice):
                continue   # a single element (modes[0], modes[-1])
            if isinstance(pa, ast.Call) and (dotted(pa.func) or "").split(".")[-1] in ("len", "min", "max", "sum", "set", "frozenset", "amin", "amax"):
                continue   # an order-insensitive aggregate
            elementwise.append(x)
    keyp = f"{pred.qualname}|elementwise"
    ctx.obligation("C17a", keyp, bool(elementwise), where=f"{ctx.relpath(pred.file)}:{pred.line}")
    if not elementwise:
        ctx.violation("C17a", keyp, pred.file, pred.line,
                      f"{pred.name} decides from single elements and order-insensitive aggregates of `{par}` only (first, last, length, ...): a tuple "
                      "whose inner modes are permuted, such as (0, 2, 1, 3), passes, and the guarded gate steps of the fermionic Fock simulator then "
                      "apply a gate without the Jordan-Wigner signs it needs", construct=norm(pred.node.body[-1])[:160])
    for q, (fn, classes) in sorted(steps.items()):
        writes = _sv_writes(fn)
        key = f"{q}|{'/'.join(sorted(classes))}"
        if not writes:
            # the step hands the state vector to a connector method; the refusal must still dominate that hand-over
            writes = [n for n in walk_no_nested(fn.node) if isinstance(n, ast.Assign)
                      and any(isinstance(x, ast.Attribute) and x.attr == SV for x in ast.walk(n.value))]
        if writes and all(_is_diagonal_write(w) for w in writes):
            ctx.instance("C17a", key, "diagonal", where=f"{ctx.relpath(fn.file)}:{fn.line}")
            continue
        g = cfgmod.build(fn.node)

        def is_guard(n: cfgmod.Node) -> bool:
            if n.kind != "test" or not isinstance(n.stmt, ast.If):
                return False

            def direct(i: ast.If) -> bool:
                calls = [c for c in ast.walk(i.test) if isinstance(c, ast.Call) and (dotted(c.func) or "").split(".")[-1] == "are_modes_consecutive"]
                # the true branch must leave by raising
                return bool(calls) and any(isinstance(s, ast.Raise) for s in i.body)

            if direct(n.stmt):
                return True
            # `if config.validate: if not are_modes_consecutive(modes): raise` - validation switched off is not a missing check
            return "validate" in norm(n.stmt.test) and any(isinstance(s, ast.If) and direct(s) for s in n.stmt.body)

        guards = [n for n in g.nodes if is_guard(n)]
        ok = bool(guards)
        if ok:
            for w in writes:
                wn = [n for n in g.nodes if n.stmt is w]
                if not wn or not g.dominates(is_guard, wn[0].id):
                    ok = False
        if ok:
            ctx.instance("C17a", key, "refuses non-consecutive modes", where=f"{ctx.relpath(fn.file)}:{fn.line}")
        else:
            ctx.instance("C17a", key, "VIOLATED", where=f"{ctx.relpath(fn.file)}:{fn.line}")
            ctx.violation(
                "C17a", key, fn.file, fn.line,
                f"{fn.name} (registered for {', '.join(sorted(classes))}) mixes amplitudes of different basis states but does not "
                "refuse non-consecutive modes, unlike its sibling steps: on non-adjacent or descending modes the Fock and the "
                "Gaussian fermionic simulator give different states",
                construct=norm(writes[0])[:160] if writes else fn.name,
            )


def _assign_calls(fn: FuncInfo, attr: str) -> List[ast.Assign]:
    out = []
    for n in walk_no_nested(fn.node):
        if isinstance(n, ast.Assign) and len(n.targets) == 1 and isinstance(n.targets[0], ast.Attribute) and n.targets[0].attr == attr \
                and isinstance(n.value, ast.Call) and (dotted(n.value.func) or "").split(".")[-1] == "assign" and len(n.value.args) == 3:
            out.append(n)
    return sorted(out, key=lambda a: a.lineno)


def clause_b(ctx: Context) -> None:
    ctx.rule("C17b", "the updates of D and E in the fermionic Gaussian passive step equal conj(U) D U^T and conj(U) E U^dagger "
                     "(derived from a' = U a), each one-sided product is written back to the selection it was read from, right "
                     "factors act on column selections and left factors on row selections")
    idx = get_index(ctx.repo)
    fn = idx.find_function(GAUSS_STEPS, "passive_linear_gate")
    # local selections: name -> ("rows" | "cols")
    sel_kind: Dict[str, str] = {}
    unitary_name = None
    modes_name = None
    for n in walk_no_nested(fn.node):
        if isinstance(n, ast.Assign) and len(n.targets) == 1 and isinstance(n.targets[0], ast.Name):
            v = n.value
            if isinstance(v, ast.Call) and (dotted(v.func) or "").split(".")[-1] == "_get_passive_block":
                unitary_name = n.targets[0].id
            if isinstance(v, ast.Attribute) and v.attr == "modes":
                modes_name = n.targets[0].id
    for n in walk_no_nested(fn.node):
        if isinstance(n, ast.Assign) and len(n.targets) == 1 and isinstance(n.targets[0], ast.Name):
            v = n.value
            if isinstance(v, ast.Call) and (dotted(v.func) or "").split(".")[-1] == "ix_" and len(v.args) == 2:
                a, b = (norm(x) for x in v.args)
                if b == modes_name and a != modes_name:
                    sel_kind[n.targets[0].id] = "cols"
                elif a == modes_name and b != modes_name:
                    sel_kind[n.targets[0].id] = "rows"
    if unitary_name is None or modes_name is None or len(sel_kind) < 2:
        raise AnalysisError("C17b: passive_linear_gate no longer has the recognised shape (unitary, modes, row/column selections)")

    def kind_of_slice(s: ast.AST) -> Optional[str]:
        if isinstance(s, ast.Name):
            return sel_kind.get(s.id)
        if isinstance(s, ast.Tuple) and len(s.elts) == 2:
            a, b = s.elts
            full = lambda x: isinstance(x, ast.Slice) and x.lower is None and x.upper is None  # noqa: E731
            if norm(a) == modes_name and full(b):
                return "rows"
            if norm(b) == modes_name and full(a):
                return "cols"
        return None

    U = mw.sym("U")
    oracles = {"_D": mw.mul(mw.mul(mw.conj(U), mw.sym("Dm")), mw.transpose(U)),
               "_E": mw.mul(mw.mul(mw.conj(U), mw.sym("Em")), mw.transpose(mw.conj(U)))}
    n_ob = 0
    for attr, symname in (("_D", "Dm"), ("_E", "Em")):
        cur = mw.sym(symname)
        assigns = _assign_calls(fn, attr)
        if len(assigns) < 2:
            raise AnalysisError(f"C17b: fewer than two updates of {attr} in passive_linear_gate")
        for a in assigns:
            tgt, sel, val = a.value.args
            k_sel = kind_of_slice(sel)
            reads = [n for n in ast.walk(val) if isinstance(n, ast.Subscript) and isinstance(n.value, ast.Attribute) and n.value.attr == attr]
            key = f"{fn.qualname}|{attr}|{norm(val)}"
            if len(reads) != 1 or k_sel is None or not (isinstance(val, ast.BinOp) and isinstance(val.op, ast.MatMult)):
                ctx.error(f"C17b: update `{norm(a)[:100]}` is outside the recognised fragment; undecided")
                continue
            k_read = kind_of_slice(reads[0].slice)
            side = "right" if val.left is reads[0] else ("left" if val.right is reads[0] else None)
            good = side is not None and k_read == k_sel and ((side == "right" and k_sel == "cols") or (side == "left" and k_sel == "rows"))
            n_ob += 1
            ctx.obligation("C17b", key + "|selection", good, where=f"{ctx.relpath(fn.file)}:{a.lineno}")
            if not good:
                ctx.violation("C17b", key + "|selection", fn.file, a.lineno,
                              f"one-sided update of {attr}: the factor multiplies from the {side} but the block is read from a "
                              f"{k_read} selection and written to a {k_sel} selection",
                              construct=norm(a)[:160])
            try:
                ev = mw.WordEval({unitary_name: U}, {norm(reads[0]): cur})
                cur = ev.ev(val)
            except mw.Untranslatable as u:
                ctx.error(f"C17b: {u}; undecided")
                cur = None
                break
        if cur is None:
            continue
        ok = cur == oracles[attr]
        n_ob += 1
        ctx.obligation("C17b", f"{fn.qualname}|{attr}|composite", ok, where=f"{ctx.relpath(fn.file)}:{fn.line}",
                       got=mw.fmt(cur), want=mw.fmt(oracles[attr]))
        if not ok:
            ctx.violation("C17b", f"{fn.qualname}|{attr}|composite", fn.file, assigns[0].lineno,
                          f"the passive update of {attr} composes to {mw.fmt(cur)}, the transformation a' = U a gives {mw.fmt(oracles[attr])}",
                          construct=mw.fmt(cur))
    ctx.require_floor("C17b obligations (selections and composites)", n_ob, 6)


def clause_c(ctx: Context) -> None:
    ctx.rule("C17c", "the Majorana covariance matrix is updated by an orthogonal congruence K cov K^T with the same K on both sides")
    idx = get_index(ctx.repo)
    fn = idx.find_function(GAUSS_STEPS, "_do_apply_gaussian_hamiltonian")
    n = 0
    for a in walk_no_nested(fn.node):
        if isinstance(a, ast.Assign) and len(a.targets) == 1 and isinstance(a.targets[0], ast.Attribute) and a.targets[0].attr == "covariance_matrix":
            n += 1
            v = a.value
            ok = False
            # (K @ cov) @ K.T
            if isinstance(v, ast.BinOp) and isinstance(v.op, ast.MatMult) and isinstance(v.left, ast.BinOp) and isinstance(v.left.op, ast.MatMult):
                k1, mid, k2 = v.left.left, v.left.right, v.right
                if isinstance(mid, ast.Attribute) and mid.attr == "covariance_matrix" and isinstance(k2, ast.Attribute) and k2.attr == "T" \
                        and norm(k2.value) == norm(k1):
                    ok = True
            elif isinstance(v, ast.BinOp) and isinstance(v.op, ast.MatMult) and isinstance(v.right, ast.BinOp) and isinstance(v.right.op, ast.MatMult):
                k1, mid, k2 = v.left, v.right.left, v.right.right
                if isinstance(mid, ast.Attribute) and mid.attr == "covariance_matrix" and isinstance(k2, ast.Attribute) and k2.attr == "T" \
                        and norm(k2.value) == norm(k1):
                    ok = True
            key = f"{fn.qualname}|{norm(v)}"
            ctx.obligation("C17c", key, ok, where=f"{ctx.relpath(fn.file)}:{a.lineno}")
            if not ok:
                ctx.violation("C17c", key, fn.file, a.lineno,
                              "the covariance update is not a congruence K cov K^T with one K: the result need not stay real antisymmetric",
                              construct=norm(a)[:160])
    ctx.require_floor("C17c covariance updates", n, 1)


def clause_d(ctx: Context) -> None:
    ctx.rule("C17d", "both fermionic state_vector steps pass the all_zero_or_one test (under config.validate) on every path "
                     "that stores occupation numbers")
    idx = get_index(ctx.repo)
    n = 0
    for mod, sink_pred, label in (
        (GAUSS_STEPS, lambda s: any(isinstance(c, ast.Call) and (dotted(c.func) or "").endswith("_set_occupation_numbers") for c in ast.walk(s)), "_set_occupation_numbers"),
        (FOCK_STEPS, lambda s: isinstance(s, ast.Assign) and any(isinstance(t, ast.Attribute) and t.attr == SV for t in s.targets), "state vector write"),
    ):
        fn = idx.find_function(mod, "state_vector")
        g = cfgmod.build(fn.node)

        def is_check(nd: cfgmod.Node) -> bool:
            if nd.kind != "test" or not isinstance(nd.stmt, ast.If):
                return False
            own = [c for c in cfgmod.own_nodes(nd) if isinstance(c, ast.Call) and (dotted(c.func) or "").split(".")[-1] == "all_zero_or_one"]
            inner = []
            if not own:
                # `if config.validate: if ... not all_zero_or_one(...): raise`
                for s in nd.stmt.body:
                    if isinstance(s, ast.If) and any(isinstance(c, ast.Call) and (dotted(c.func) or "").split(".")[-1] == "all_zero_or_one" for c in ast.walk(s.test)) \
                            and any(isinstance(x, ast.Raise) for x in s.body):
                        inner.append(s)
                return bool(inner) and "validate" in norm(nd.stmt.test)
            return any(isinstance(x, ast.Raise) for x in nd.stmt.body)

        sinks = [nd for nd in g.nodes if nd.stmt is not None and nd.kind in ("stmt", "return") and sink_pred(nd.stmt)]
        if not sinks:
            raise AnalysisError(f"C17d: no {label} in {fn.qualname}")
        for nd in sinks:
            n += 1
            ok = g.dominates(is_check, nd.id)
            key = f"{fn.qualname}|{norm(nd.stmt)[:60]}"
            ctx.obligation("C17d", key, ok, where=f"{ctx.relpath(fn.file)}:{nd.line}")
            if not ok:
                ctx.violation("C17d", key, fn.file, nd.line,
                              f"a path reaches this {label} without the all_zero_or_one test: occupation numbers above 1 can be stored",
                              construct=norm(nd.stmt)[:160])
    ctx.require_floor("C17d stores of occupation numbers", n, 3)


def _loop_variant(fn_node: ast.AST) -> set:
    """names whose value may differ between iterations of a loop of the function (fixpoint)"""
    loops = [n for n in walk_no_nested(fn_node) if isinstance(n, (ast.For, ast.While))]
    variant: set = set()
    in_loop_assigns: List[Tuple[List[str], ast.AST]] = []
    for lp in loops:
        if isinstance(lp, ast.For):
            variant |= {n.id for n in ast.walk(lp.target) if isinstance(n, ast.Name)}
        for st in lp.body + lp.orelse:
            for n in ast.walk(st):
                if isinstance(n, ast.AugAssign):
                    variant |= {x.id for x in ast.walk(n.target) if isinstance(x, ast.Name) and isinstance(x.ctx, ast.Store)}
                    if isinstance(n.target, (ast.Subscript, ast.Attribute)):
                        b = n.target
                        while isinstance(b, (ast.Subscript, ast.Attribute)):
                            b = b.value
                        if isinstance(b, ast.Name):
                            variant.add(b.id)
                elif isinstance(n, ast.Assign):
                    for t in n.targets:
                        if isinstance(t, (ast.Subscript, ast.Attribute)):
                            b = t
                            while isinstance(b, (ast.Subscript, ast.Attribute)):
                                b = b.value
                            if isinstance(b, ast.Name):
                                variant.add(b.id)   # stored into inside the loop
                        else:
                            names = [x.id for x in ast.walk(t) if isinstance(x, ast.Name)]
                            in_loop_assigns.append((names, n.value))
                elif isinstance(n, (ast.For, ast.comprehension)) and n is not lp:
                    variant |= {x.id for x in ast.walk(n.target) if isinstance(x, ast.Name)}
    # control dependence: a name assigned under an `if` / conditional expression inside the loop depends on the names of that test
    ctrl: Dict[int, set] = {}

    def walk_ctrl(stmts, tests: set) -> None:
        for st in stmts:
            if isinstance(st, ast.If):
                t2 = tests | {x.id for x in ast.walk(st.test) if isinstance(x, ast.Name)}
                walk_ctrl(st.body, t2)
                walk_ctrl(st.orelse, t2)
            elif isinstance(st, (ast.For, ast.While, ast.With, ast.Try)):
                for f_ in ("body", "orelse", "finalbody"):
                    walk_ctrl(getattr(st, f_, []) or [], tests)
            elif isinstance(st, ast.Assign):
                ctrl[id(st.value)] = set(tests)
    for lp in loops:
        walk_ctrl(lp.body + lp.orelse, set())
    # a name with one defining assignment has that value whenever it is defined: the tests it sits under select *whether*, not *what*
    n_defs: Dict[str, int] = {}
    for a_ in walk_no_nested(fn_node):
        if isinstance(a_, ast.Assign):
            for t_ in a_.targets:
                for x_ in ast.walk(t_):
                    if isinstance(x_, ast.Name) and isinstance(x_.ctx, ast.Store):
                        n_defs[x_.id] = n_defs.get(x_.id, 0) + 1
    for names, val in in_loop_assigns:
        if all(n_defs.get(nm_, 0) <= 1 for nm_ in names):
            ctrl.pop(id(val), None)
    changed = True
    while changed:
        changed = False
        for names, val in in_loop_assigns:
            used = {x.id for x in ast.walk(val) if isinstance(x, ast.Name)} | ctrl.get(id(val), set())
            if (used & variant or used & set(names)) and not set(names) <= variant:
                variant |= set(names)
                changed = True
    return variant


def clause_e(ctx: Context) -> None:
    ctx.rule("C17e", "in a guarded (adjacent-mode) gate step of the fermionic Fock simulator, the coefficients multiplying the "
                     "amplitudes read from the state vector are loop-invariant: they do not depend on the basis state visited")
    idx = get_index(ctx.repo)
    reg = get_registry(idx)
    sims = [s for s in reg.simulators if s.name == FOCK_SIM]
    if not sims:
        raise AnalysisError(f"anchor vanished: {FOCK_SIM}")
    gate_base = idx.find_class("piquasso.api.instruction", "Gate")
    steps: Dict[str, FuncInfo] = {}
    for e in sims[0].entries:
        if e.instr is not None and e.step is not None and e.instr.is_subclass_of(gate_base):
            steps[e.step.qualname] = e.step
    n_ob = 0
    for q, fn in sorted(steps.items()):
        writes = [w for w in _sv_writes(fn) if isinstance(w.value, ast.Call) and (dotted(w.value.func) or "").split(".")[-1] == "assign"
                  and len(w.value.args) == 3]
        if not writes:
            continue
        variant = _loop_variant(fn.node)
        # locals holding amplitudes
        amp: set = set()
        assigns = [n for n in walk_no_nested(fn.node) if isinstance(n, ast.Assign) and len(n.targets) == 1 and isinstance(n.targets[0], ast.Name)]

        def is_amp(e: ast.AST) -> bool:
            if isinstance(e, ast.Subscript):
                return is_amp(e.value)
            if isinstance(e, ast.Attribute):
                return e.attr in (SV, "state_vector")
            if isinstance(e, ast.Name):
                return e.id in amp
            if isinstance(e, ast.Call):
                return any(is_amp(a) for a in e.args)
            if isinstance(e, ast.BinOp):
                return is_amp(e.left) or is_amp(e.right)
            if isinstance(e, ast.UnaryOp):
                return is_amp(e.operand)
            return False

        ch = True
        while ch:
            ch = False
            for a in assigns:
                if a.targets[0].id not in amp and is_amp(a.value):
                    amp.add(a.targets[0].id)
                    ch = True

        def coefficients(e: ast.AST) -> List[ast.AST]:
            if isinstance(e, ast.BinOp):
                la, ra = is_amp(e.left), is_amp(e.right)
                if la and ra:
                    return coefficients(e.left) + coefficients(e.right)
                if la:
                    return coefficients(e.left) + [e.right]
                if ra:
                    return [e.left] + coefficients(e.right)
                return [e]
            if isinstance(e, ast.UnaryOp):
                return coefficients(e.operand)
            if isinstance(e, ast.Call) and is_amp(e):
                out: List[ast.AST] = []
                for a in e.args:
                    out += coefficients(a) if is_amp(a) else []
                return out
            if isinstance(e, ast.Name) and e.id in amp:
                out = []
                for a in assigns:
                    if a.targets[0].id == e.id:
                        out += coefficients(a.value)
                return out
            if is_amp(e):
                return []
            return [e]

        for w in writes:
            val = w.value.args[2]
            for c in coefficients(val):
                used = {x.id for x in ast.walk(c) if isinstance(x, ast.Name)}
                bad = sorted(used & variant)
                key = f"{q}|{norm(c)[:60]}"
                n_ob += 1
                ctx.obligation("C17e", key, not bad, where=f"{ctx.relpath(fn.file)}:{w.lineno}")
                if bad:
                    ctx.violation("C17e", key, fn.file, w.lineno,
                                  f"the coefficient `{norm(c)[:80]}` applied to the amplitudes varies with the basis state visited "
                                  f"(through {', '.join(bad)}): on adjacent modes the gate acts with the same numbers on every "
                                  "basis state, so this is not the operator the Gaussian fermionic simulator applies",
                                  construct=norm(w)[:160])
    ctx.require_floor("C17e coefficients of amplitude updates", n_ob, 5)


def _value_deps(fn_node: ast.AST) -> Dict[str, set]:
    """flow-insensitive value dependencies name -> names, ignoring .dtype/.shape/len() uses"""
    deps: Dict[str, set] = {}

    def names(e: ast.AST) -> set:
        out: set = set()

        def rec(x: ast.AST) -> None:
            if isinstance(x, ast.Attribute) and x.attr in ("dtype", "shape", "ndim", "size"):
                return
            if isinstance(x, ast.Call) and (dotted(x.func) or "") == "len":
                return
            if isinstance(x, ast.Name):
                out.add(x.id)
            for c in ast.iter_child_nodes(x):
                if isinstance(x, ast.Call) and c is x.func and not isinstance(c, ast.Attribute):
                    continue
                if isinstance(x, ast.keyword) and x.arg in ("dtype", "shape"):
                    continue
                rec(c)
        rec(e)
        return out

    for n in walk_no_nested(fn_node):
        if isinstance(n, (ast.Assign, ast.AugAssign)):
            tgts = n.targets if isinstance(n, ast.Assign) else [n.target]
            for t in tgts:
                b = t
                while isinstance(b, (ast.Subscript, ast.Attribute)):
                    b = b.value
                tn = [b.id] if isinstance(b, ast.Name) else [x.id for x in ast.walk(t) if isinstance(x, ast.Name)]
                for name in tn:
                    deps.setdefault(name, set()).update(names(n.value))
    return deps


def clause_f(ctx: Context) -> None:
    ctx.rule("C17f", "every implementation of calculate_interferometer_on_fermionic_fock_space appends one constant (first, for "
                     "zero particles), and every later representation depends on the matrix (and, inside the loop, on a previous "
                     "representation)")
    idx = get_index(ctx.repo)
    fns = [f for f in idx.all_functions() if "calculate_interferometer_on_fermionic_fock_space" in f.name]
    impls = []
    for fn in fns:
        apps = [n for n in walk_no_nested(fn.node) if isinstance(n, ast.Call) and isinstance(n.func, ast.Attribute) and n.func.attr == "append"
                and len(n.args) == 1]
        if apps:
            impls.append((fn, sorted(apps, key=lambda c: c.lineno)))
    ctx.require_floor("C17f implementations that build the representations", len(impls), 3)
    for fn, apps in impls:
        params = [a.arg for a in fn.node.args.args]
        mat = "matrix" if "matrix" in params else None
        if mat is None:
            raise AnalysisError(f"C17f: {fn.qualname} has no `matrix` parameter")
        deps = _value_deps(fn.node)
        lst = norm(apps[0].func.value)

        def closure(e: ast.AST) -> set:
            seen: set = set()
            todo = [x.id for x in ast.walk(e) if isinstance(x, ast.Name)]
            # strip dtype-only uses
            d0 = _value_deps(ast.Module(body=[ast.Assign(targets=[ast.Name(id="__x", ctx=ast.Store())], value=e)], type_ignores=[]))
            todo = list(d0.get("__x", set()))
            while todo:
                x = todo.pop()
                if x in seen:
                    continue
                seen.add(x)
                todo += list(deps.get(x, ()))
            return seen

        loops = [n for n in walk_no_nested(fn.node) if isinstance(n, (ast.For, ast.While))]
        for i, ap in enumerate(apps):
            if norm(ap.func.value) != lst:
                continue
            cl = closure(ap.args[0])
            in_loop = any(ap in list(ast.walk(lp)) for lp in loops)
            key = f"{fn.qualname}|append#{i}"
            if i == 0:
                ok = mat not in cl
                what = "the zero-particle representation is the constant"
            else:
                ok = mat in cl and (not in_loop or lst in cl)
                what = "depends on the matrix" + (" and on a previous representation" if in_loop else "")
            ctx.obligation("C17f", key, ok, where=f"{ctx.relpath(fn.file)}:{ap.lineno}", expect=what)
            if not ok:
                ctx.violation("C17f", key, fn.file, ap.lineno,
                              f"representation appended as element {i} of `{lst}`: expected that it {what}; a constant for a "
                              "subspace with particles drops the determinant of the corresponding submatrix (for n = d: the phase "
                              "det U) that the Gaussian fermionic simulator keeps",
                              construct=norm(ap)[:160])


def _block_reads(fn_node: ast.AST) -> Dict[str, List[ast.AST]]:
    """value reads of `<x>._D` / `<x>._E` in a function, not counting shape/dtype reads and reads inside the statement that updates the very
    same block (`state._D = assign(state._D, sel, ... state._D[sel] ...)` is the update of that block, not a computation from it)"""
    parents_: Dict[int, ast.AST] = {}
    for x in ast.walk(fn_node):
        for ch in ast.iter_child_nodes(x):
            parents_[id(ch)] = x
    reads: Dict[str, List[ast.AST]] = {"_D": [], "_E": []}
    for x in walk_no_nested(fn_node):
        if isinstance(x, ast.Attribute) and x.attr in reads and isinstance(x.ctx, ast.Load):
            pa = parents_.get(id(x))
            if isinstance(pa, ast.Attribute) and pa.attr in ("dtype", "shape", "ndim"):
                continue
            st_ = x
            while id(st_) in parents_ and not isinstance(st_, ast.stmt):
                st_ = parents_[id(st_)]
            if isinstance(st_, ast.Assign) and any(isinstance(t_, ast.Attribute) and t_.attr == x.attr for t_ in st_.targets):
                continue
            reads[x.attr].append(x)
    return reads


def clause_g(ctx: Context) -> None:
    """A fermionic Gaussian state is (D, E) = (<a^dagger a^T>, <a^dagger a^dagger^T>).  A simulation step that computes from the normal block D
    alone (probabilities, samples) is right only for states without pairing (E = 0), i.e. before any active gate: every function of the
    simulation steps that computes from the values of `_D` also reads `_E` (or goes through the state's own interface instead)."""
    ctx.rule("C17g", "a step of the fermionic Gaussian simulator that computes from the normal block D of the state also reads the pairing block E")
    fx = ast.parse("def p(state, sel):\n    k = state._D[sel]\n    return det(k)\n"
                   "def u(state, sel, U):\n    state._D = assign(state._D, sel, state._D[sel] @ U)\n"
                   "def b(state):\n    return state._D + state._E\n")
    got = [(bool(r["_D"]), bool(r["_E"])) for r in (_block_reads(f_) for f_ in fx.body)]
    if got != [(True, False), (False, False), (True, True)]:
        raise AnalysisError("C17g: the rule does not behave on its inline fixture")
    idx = get_index(ctx.repo)
    m = idx.module(GAUSS_STEPS)
    n = n_fn = 0
    for fn in idx.all_functions(include_nested=True):
        if fn.module is not m:
            continue
        n_fn += 1
        reads = _block_reads(fn.node)
        if not reads["_D"] and not reads["_E"]:
            continue
        n += 1
        ok = bool(reads["_D"]) == bool(reads["_E"])
        key = f"{fn.qualname}|reads D and E together"
        ctx.obligation("C17g", key, ok, where=f"{ctx.relpath(fn.file)}:{fn.line}")
        if not ok:
            only = "_D" if reads["_D"] else "_E"
            ctx.violation("C17g", key, fn.file, reads[only][0].lineno,
                          f"{fn.name} computes from `{norm(reads[only][0])}` only and never reads the other moment block: the result is right for "
                          "states without pairing correlations only (before any Squeezing2 / IsingXX / non-passive Hamiltonian), and disagrees with "
                          "the Fock simulator after one", construct=norm(reads[only][0]))
    ctx.require_floor("C17g functions of the fermionic Gaussian steps scanned", n_fn, 10)
    ctx.obligation("C17g", f"{GAUSS_STEPS}|no step computes from one moment block only", not any(f.rule == "C17g" for f in ctx.findings), functions=n_fn, reading=n)


def run(ctx: Context) -> None:
    ctx.explanation = (
        "static analysis of the fermionic simulators: sibling agreement of the Fock gate steps on the adjacency test (dominance on "
        "the CFG), matrix-word derivation of the Gaussian passive update, congruence form, exclusion test dominance; clause-level "
        "claim - numerical agreement of the two representations is not decided"
        "; further clauses: loop-invariant coefficients of adjacent-mode gates, the exterior-power recurrence, D and E read together, the "
        "adjacency predicate looks at the elements"
    )
    clause_a(ctx)
    clause_b(ctx)
    clause_c(ctx)
    clause_d(ctx)
    clause_e(ctx)
    clause_f(ctx)
    clause_g(ctx)
