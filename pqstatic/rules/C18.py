"""C18 — program construction is faithful: round trips, nesting, preparation algebra (engine E1 + E3).

 (a) Blackbird positional tables       (b) keyword round trip for every Instruction subclass
 (c) Config constructor / __eq__ / _as_code field sets agree
 (d) every emitted `pq.<Name>` resolves to the emitting class
 (e) no ndarray reaches generated source through a lossy formatter
 (f) preparation algebra reads every operand's coefficient; nested programs register copies
"""

from __future__ import annotations

import ast
from typing import Dict, List, Optional, Set, Tuple

from ..astutil import flatten_guard, is_isinstance, self_attr, names_in
from ..index import ClassInfo, FuncInfo, get_index, dotted, norm, calls_in, walk_no_nested, const_str
from ..registry import get_registry
from ..report import Context, AnalysisError

LEVEL = "other"
VALUE_PRESERVING_WRAPPERS = {"tuple"}  # tuple(arg) → same elements, hashable; the only wrapper on today's tree


def run(ctx: Context) -> None:
    idx = get_index(ctx.repo)
    reg = get_registry(idx)
    ctx.explanation = (
        "Table agreement decided from source: constructor signatures vs params dicts (order for Blackbird classes, "
        "names for all), the Blackbird name map vs the instruction classes, Config's constructor/__eq__/_as_code field "
        "sets, the piquasso namespace bindings vs the classes that emit pq.<Name>, a deny rule for lossy ndarray "
        "formatting in generated code, and a coefficient-use rule in the preparation algebra. What blackbird.dumps/"
        "loads does to floats and the execution of generated code are outside."
    )
    ctx.rule("C18a", "each Blackbird-mapped class exists exactly once, and its params keys equal its leading constructor parameters in order (export sends params.values(), import zips the signature)")
    ctx.rule("C18b", "for every Instruction subclass, params keys are constructor parameter names and params[k] is the argument k (up to value-preserving wrappers)")
    ctx.rule("C18c", "Config: every constructor keyword is compared in __eq__ and emittable by _as_code through the attribute it is stored in")
    ctx.rule("C18d", "for every class whose _as_code emits pq.<ClassName>, piquasso.<ClassName> is that class")
    ctx.rule("C18e", "no ndarray is formatted into generated source through repr/str/f-string (8 significant digits, elision)")
    ctx.rule("C18f", "in each isinstance arm of NumberState.__add__/FockStateVector.__add__ every operand's coefficient is read on the path to each returned object")
    clause_ab(ctx, idx, reg)
    clause_c(ctx, idx)
    clause_d(ctx, idx, reg)
    clause_e(ctx, idx)
    clause_f(ctx, idx, reg)


# ================================================================================================ (a)(b)


def _unwrap(v: ast.AST) -> Tuple[ast.AST, List[str]]:
    wrappers = []
    while isinstance(v, ast.Call) and isinstance(v.func, ast.Name) and len(v.args) == 1 and not v.keywords:
        wrappers.append(v.func.id)
        v = v.args[0]
    return v, wrappers


def clause_ab(ctx: Context, idx, reg) -> None:
    bb = idx.module("piquasso.core._blackbird")
    table = bb.assigns.get("_BB_TO_PQ_MAP")
    if not isinstance(table, ast.Dict):
        raise AnalysisError("anchor vanished: _BB_TO_PQ_MAP dict literal in piquasso.core._blackbird")
    by_name: Dict[str, List] = {}
    for info in reg.instructions.values():
        by_name.setdefault(info.cls.name, []).append(info)
    names = []
    for k, v in zip(table.keys, table.values):
        bn, pn = const_str(k), const_str(v)
        if bn is None or pn is None:
            raise AnalysisError("C18a: non-literal entry in _BB_TO_PQ_MAP (undecided)")
        names.append((bn, pn, v.lineno))
    ctx.require_floor("Blackbird-mapped classes", len(names), 15)
    seen_pq = {}
    for bn, pn, line in names:
        key = f"piquasso.core._blackbird|{bn}->{pn}"
        cands = by_name.get(pn, [])
        if not cands:
            ctx.violation("C18a", key, bb.path, line, f"Blackbird operation {bn} maps to `{pn}`, which is not an Instruction subclass", pn)
            continue
        if len(cands) > 1:
            ctx.violation("C18a", key + "|ambiguous", bb.path, line,
                          f"`{pn}` names {len(cands)} Instruction subclasses ({', '.join(c.cls.qualname for c in cands)}); "
                          f"Instruction.get_subclass keeps whichever was defined last", pn)
        if pn in seen_pq:
            ctx.violation("C18a", key + "|duplicate", bb.path, line,
                          f"`{pn}` is the image of both {seen_pq[pn]} and {bn}: the inverse map used for export is not well defined", pn)
        seen_pq[pn] = bn
        info = cands[0]
        problems = []
        for ks in info.params_keys:
            if ks != info.ctor_params[: len(ks)] or len(ks) != len(info.ctor_params):
                problems.append(f"params keys {ks} vs constructor parameters {info.ctor_params}")
        ctx.obligation("C18a", key, not problems, f"{ctx.relpath(info.cls.file)}:{info.cls.node.lineno}",
                       ctor=info.ctor_params, params=info.params_keys)
        for p in problems:
            ctx.violation("C18a", key + "|order", info.cls.file, info.ctor.line if info.ctor else info.cls.node.lineno,
                          f"{pn}: {p} — Blackbird export sends params.values() positionally and import zips them with the "
                          f"constructor signature, so arguments would be exchanged or dropped", p)
    # export/import really are positional over params / signature (the premise of the rule)
    exp = bb.functions.get("_piquasso_instruction_to_blackbird_operation")
    imp = bb.functions.get("_get_instruction_params")
    if exp is None or imp is None:
        raise AnalysisError("anchor vanished: Blackbird export/import helpers")
    def with_helpers(f) -> str:
        # the text of the function and of the module-level helpers it calls (a helper extraction keeps the premise)
        txt = norm(f.node)
        for c in ast.walk(f.node):
            if isinstance(c, ast.Call) and isinstance(c.func, ast.Name) and c.func.id in bb.functions and c.func.id != f.name:
                txt += "\n" + norm(bb.functions[c.func.id].node)
        return txt

    premise = "params.values()" in with_helpers(exp) and "inspect.signature" in with_helpers(imp) and "zip(" in with_helpers(imp)
    ctx.obligation("C18a", "piquasso.core._blackbird|positional-premise", premise)
    if not premise:
        raise AnalysisError("C18a: Blackbird export/import no longer use params.values()/signature zip; the rule's premise changed (undecided)")

    # (b) every concrete instruction
    n = 0
    for info in reg.concrete_instructions():
        n += 1
        for ks, vs in zip(info.params_keys, info.params_values):
            for k in ks:
                key = f"{info.cls.qualname}|params[{k}]"
                v, wrappers = _unwrap(vs[k])
                problems = []
                if k not in info.ctor_params:
                    problems.append(f"params key `{k}` is not a constructor parameter of {info.cls.name} ({info.ctor_params}): "
                                    f"as_code/from_dict/copy rebuild the instruction with {k}=..., which the constructor rejects")
                elif not (isinstance(v, ast.Name) and v.id == k):
                    problems.append(f"params['{k}'] stores `{norm(vs[k])}`, not the constructor argument `{k}`: a round trip "
                                    f"rebuilds the instruction with a different value")
                bad_wrappers = [w for w in wrappers if w not in VALUE_PRESERVING_WRAPPERS]
                if bad_wrappers and not problems:
                    problems.append(f"params['{k}'] wraps the argument in {bad_wrappers}, which is not in the value-preserving list")
                ctx.obligation("C18b", key, not problems, f"{ctx.relpath(info.cls.file)}:{vs[k].lineno}")
                for p in problems:
                    ctx.violation("C18b", key, info.cls.file, vs[k].lineno, p, norm(vs[k]))
    ctx.require_floor("concrete Instruction subclasses", n, 40)


# ================================================================================================ (c)


def clause_c(ctx: Context, idx) -> None:
    cfg = idx.find_class("piquasso.api.config", "Config")
    init, eq, code = cfg.methods.get("__init__"), cfg.methods.get("__eq__"), cfg.methods.get("_as_code")
    if not (init and eq and code):
        raise AnalysisError("anchor vanished: Config.__init__/__eq__/_as_code")
    a = init.node.args
    kws = [x.arg for x in a.kwonlyargs] + [x.arg for x in (a.posonlyargs + a.args)[1:]]
    ctx.require_floor("Config constructor keywords", len(kws), 8)
    # attribute(s) each keyword is stored in (through setters too)
    stored: Dict[str, Set[str]] = {k: set() for k in kws}
    for n in ast.walk(init.node):
        if isinstance(n, ast.Assign):
            used = names_in(n.value) & set(kws)
            for t in n.targets:
                at = self_attr(t)
                if at:
                    for k in used:
                        stored[k].add(at)
    # a property setter stores into another attribute: seed_sequence -> _seed_sequence
    eq_attrs = {n.attr for n in ast.walk(eq.node) if isinstance(n, ast.Attribute) and isinstance(n.value, ast.Name) and n.value.id == "self"}
    other_attrs = {n.attr for n in ast.walk(eq.node) if isinstance(n, ast.Attribute) and isinstance(n.value, ast.Name) and n.value.id == "other"}
    emitted: Dict[str, ast.AST] = {}
    for n in ast.walk(code.node):
        if isinstance(n, ast.Assign) and isinstance(n.targets[0], ast.Subscript):
            k = const_str(n.targets[0].slice)
            if k is not None:
                emitted[k] = n.value
    for k in kws:
        attrs = stored[k]
        key = f"{cfg.qualname}|{k}"
        if not attrs:
            ctx.violation("C18c", key + "|stored", cfg.file, init.line, f"constructor keyword `{k}` is not stored in any attribute", k)
            continue
        in_eq = bool(attrs & eq_attrs & other_attrs)
        ctx.obligation("C18c", key + "|eq", in_eq, stored_in=sorted(attrs))
        if not in_eq:
            ctx.violation("C18c", key + "|eq", cfg.file, eq.line,
                          f"Config.__eq__ does not compare `{k}` (stored in {sorted(attrs)}): two configurations that differ in it compare "
                          f"equal, so a simulator copy/as_code round trip can silently drop it", k)
        in_code = k in emitted
        ok_src = in_code and any(isinstance(x, ast.Attribute) and isinstance(x.value, ast.Name) and x.value.id == "self" and x.attr in attrs
                                 for x in ast.walk(emitted[k]))
        ctx.obligation("C18c", key + "|as_code", bool(ok_src))
        if not in_code:
            ctx.violation("C18c", key + "|as_code", cfg.file, code.line,
                          f"Config._as_code can never emit `{k}=`: generated code loses a non-default {k}", k)
        elif not ok_src:
            ctx.violation("C18c", key + "|as_code-source", cfg.file, emitted[k].lineno,
                          f"Config._as_code emits `{k}=` from `{norm(emitted[k])}`, not from the attribute(s) {sorted(attrs)} the constructor stores it in",
                          norm(emitted[k]))
    for k in emitted:
        if k not in kws:
            ctx.violation("C18c", f"{cfg.qualname}|{k}|unknown-keyword", cfg.file, emitted[k].lineno,
                          f"Config._as_code emits `{k}=`, which is not a constructor keyword: the generated code does not run", k)
    # copy() must keep every field: deepcopy
    cp = cfg.methods.get("copy")
    ok = cp is not None and any(dotted(c.func) in ("copy.deepcopy", "deepcopy") for c in calls_in(cp.node))
    ctx.obligation("C18c", f"{cfg.qualname}|copy-is-deepcopy", ok)
    if not ok:
        ctx.violation("C18c", f"{cfg.qualname}|copy-is-deepcopy", cfg.file, cp.line if cp else cfg.node.lineno,
                      "Config.copy is not built on copy.deepcopy: fields can be lost when simulators and states copy the configuration", "copy.deepcopy(self)")


# ================================================================================================ (d)


def _emits_pq_classname(fn: FuncInfo) -> bool:
    for n in ast.walk(fn.node):
        if isinstance(n, ast.JoinedStr):
            txt = "".join(v.value if isinstance(v, ast.Constant) and isinstance(v.value, str) else "{%s}" % norm(v.value)
                          for v in n.values if isinstance(v, (ast.Constant, ast.FormattedValue)))
            if "pq.{self.__class__.__name__}" in txt:
                return True
    return False


ABSTRACT_EXEMPT = {
    "BatchInstruction": "mixin base for batch processing, never instantiated on its own",
    "BuiltinSimulator": "abstract base of the built-in simulators (no _instruction_map)",
    "Simulator": "abstract base", "Instruction": "abstract base", "Preparation": "abstract base", "Gate": "abstract base",
    "Measurement": "abstract base", "Computer": "abstract base",
}


def clause_d(ctx: Context, idx, reg) -> None:
    root = idx.module("piquasso")
    bases = [
        idx.find_class("piquasso.api.instruction", "Instruction"),
        idx.find_class("piquasso.api.simulator", "Simulator"),
        idx.find_class("piquasso.api.program", "Program"),
        idx.find_class("piquasso.api.config", "Config"),
    ]
    n = 0
    for base in bases:
        for c in idx.subclasses(base, strict=False):
            ac = c.find_method("_as_code")
            if ac is None or not _emits_pq_classname(ac):
                continue
            if c.name.startswith("_"):
                continue
            is_abstract = any(any(d.endswith("abstractmethod") for d in m.decorators) for m in c.methods.values())
            if c.name in ABSTRACT_EXEMPT and (is_abstract or c.name in ("BatchInstruction", "BuiltinSimulator", "Preparation", "Gate", "Measurement", "Instruction")):
                ctx.instance("C18d", f"{c.qualname}|exempt", "exempt", reason=ABSTRACT_EXEMPT[c.name])
                continue
            if base.name == "Simulator" and not any(s.cls is c or c.is_subclass_of(s.cls) for s in reg.simulators):
                continue
            n += 1
            r = idx.resolve_name(root, c.name)
            key = f"{c.qualname}|pq.{c.name}"
            ok = r is c
            ctx.instance("C18d", key, "ok" if ok else "VIOLATION", f"{ctx.relpath(c.file)}:{c.node.lineno}")
            if not ok:
                what = "is not bound in the piquasso namespace" if r is None else f"is bound to {getattr(r, 'qualname', r)}"
                ctx.violation("C18d", key, c.file, c.node.lineno,
                              f"{c.qualname}._as_code emits `pq.{c.name}(...)`, but piquasso.{c.name} {what}: the generated code builds "
                              f"a different object or fails with AttributeError", f"pq.{c.name}")
    ctx.require_floor("classes emitting pq.<ClassName>", n, 50)


# ================================================================================================ (e)


def clause_e(ctx: Context, idx) -> None:
    """Deny rule: a value known to be an ndarray (isinstance guard) must not be formatted by repr/str/format/f-string."""
    n_sites = 0
    instr = idx.find_class("piquasso.api.instruction", "Instruction")
    scope: List[FuncInfo] = []
    for m in idx.modules.values():
        for f in list(m.functions.values()) + [x for c in m.classes.values() for x in c.methods.values()]:
            if f.name in ("_as_code", "_param_repr", "as_code") or "as_code" in f.name:
                scope.append(f)
    ctx.require_floor("code-emitting functions", len(scope), 6)
    for f in scope:
        for n in ast.walk(f.node):
            if isinstance(n, ast.If):
                for g, pol in flatten_guard(n.test, True):
                    ii = is_isinstance(g)
                    if ii and pol and "ndarray" in norm(ii[1]) and isinstance(ii[0], ast.Name):
                        var = ii[0].id
                        n_sites += 1
                        in_ctx = False
                        for b in n.body:
                            for x in ast.walk(b):
                                lossy = None
                                if isinstance(x, ast.Call) and dotted(x.func) in ("repr", "str", "format", "np.array_repr", "np.array_str", "np.array2string") \
                                        and x.args and isinstance(x.args[0], ast.Name) and x.args[0].id == var:
                                    if not any(k.arg == "precision" for k in x.keywords):
                                        lossy = norm(x)
                                if isinstance(x, ast.FormattedValue) and isinstance(x.value, ast.Name) and x.value.id == var:
                                    lossy = "{%s}" % var
                                if lossy:
                                    key = f"{f.qualname}|ndarray-{dotted(x.func) if isinstance(x, ast.Call) else 'fstring'}"
                                    if not _inside_printoptions(f, x):
                                        ctx.violation("C18e", key, f.file, x.lineno,
                                                      f"an ndarray parameter is written into generated source with `{lossy}`: numpy prints 8 "
                                                      f"significant digits and elides arrays above 1000 elements, so executing the generated code "
                                                      f"does not reproduce the parameter values", lossy)
                        ctx.instance("C18e", f"{f.qualname}|ndarray-arm", "checked", f"{ctx.relpath(f.file)}:{n.lineno}")
    ctx.require_floor("ndarray formatting arms", n_sites, 1)


def _inside_printoptions(f: FuncInfo, node: ast.AST) -> bool:
    for w in ast.walk(f.node):
        if isinstance(w, ast.With):
            for item in w.items:
                c = item.context_expr
                if isinstance(c, ast.Call) and (dotted(c.func) or "").endswith("printoptions"):
                    kw = {k.arg: k.value for k in c.keywords}
                    prec = kw.get("precision")
                    ok_prec = isinstance(prec, ast.Constant) and isinstance(prec.value, int) and prec.value >= 17
                    thr = kw.get("threshold")
                    ok_thr = thr is not None and ("inf" in norm(thr) or "maxsize" in norm(thr))
                    if ok_prec and ok_thr and any(x is node for b in w.body for x in ast.walk(b)):
                        return True
    return False


# ================================================================================================ (f)


def _paths_to_returns(stmts: List[ast.stmt], prefix: List[ast.stmt]) -> List[Tuple[ast.Return, List[ast.stmt]]]:
    """Every syntactic path through a block that ends in a return: (return, statements executed before it).
    `if` statements fork the path (both arms are followed separately); loops and other statements are
    taken as executed once."""
    results: List[Tuple[ast.Return, List[ast.stmt]]] = []

    def go(rest: List[ast.stmt], seen: List[ast.stmt]) -> None:
        for i, s in enumerate(rest):
            if isinstance(s, ast.Return):
                results.append((s, seen + [s]))
                return
            if isinstance(s, ast.If):
                cond = ast.Expr(value=s.test)
                go(list(s.body) + rest[i + 1:], seen + [cond])
                go(list(s.orelse) + rest[i + 1:], seen + [cond])
                return
            seen = seen + [s]

    go(list(stmts), list(prefix))
    return results


def _reads_coefficient(stmts: List[ast.stmt], operand: str) -> bool:
    for s in stmts:
        for n in ast.walk(s):
            if isinstance(n, ast.Subscript) and const_str(n.slice) == "coefficient":
                v = n.value
                if isinstance(v, ast.Attribute) and v.attr in ("params", "_params") and isinstance(v.value, ast.Name) and v.value.id == operand:
                    return True
    return False


def _is_param_read(n: ast.AST, operand: str, key: str) -> bool:
    return (isinstance(n, ast.Subscript) and const_str(n.slice) == key and isinstance(n.value, ast.Attribute)
            and n.value.attr in ("params", "_params") and isinstance(n.value.value, ast.Name) and n.value.value.id == operand)


def _weighted_by(n: ast.AST, parents: Dict[int, ast.AST], operand: str) -> bool:
    """n is a direct factor of a product whose other factors include operand.params['coefficient']."""
    cur = n
    while True:
        p = parents.get(id(cur))
        if isinstance(p, ast.BinOp) and isinstance(p.op, ast.Mult):
            other = p.right if p.left is cur else p.left
            if any(_is_param_read(x, operand, "coefficient") for x in ast.walk(other)):
                return True
            cur = p
            continue
        return False


def _raw_amplitude_uses(stmts: List[ast.stmt], operand: str) -> List[Tuple[ast.AST, str]]:
    """Uses of operand.params['fock_amplitude_map'] through which an amplitude reaches the result without the factor
    operand.params['coefficient'].  Accepted idioms (enumerated from the four arms of the repository):
      for k, v in MAP.items(): v *= coef ...        {k: v * coef for k, v in MAP.items()}        MAP[k] * coef
      k in MAP, len(MAP), MAP.keys()                 name = MAP (alias, followed)"""
    parents: Dict[int, ast.AST] = {}
    for s in stmts:
        for n in ast.walk(s):
            for c in ast.iter_child_nodes(n):
                parents[id(c)] = n
    bad: List[Tuple[ast.AST, str]] = []
    aliases: Set[str] = set()

    def is_map(n: ast.AST) -> bool:
        return _is_param_read(n, operand, "fock_amplitude_map") or (isinstance(n, ast.Name) and n.id in aliases and isinstance(n.ctx, ast.Load))

    def value_var_weighted(var: str, scope: List[ast.AST], loop_body: Optional[List[ast.stmt]]) -> bool:
        if loop_body:
            f = loop_body[0]
            if isinstance(f, ast.AugAssign) and isinstance(f.op, ast.Mult) and isinstance(f.target, ast.Name) and f.target.id == var \
                    and any(_is_param_read(x, operand, "coefficient") for x in ast.walk(f.value)):
                return True
        loads = [n for sc in scope for n in ast.walk(sc) if isinstance(n, ast.Name) and n.id == var and isinstance(n.ctx, ast.Load)]
        return all(_weighted_by(n, parents, operand) for n in loads)

    changed = True
    while changed:
        changed = False
        for s in stmts:
            for n in ast.walk(s):
                if isinstance(n, ast.Assign) and len(n.targets) == 1 and isinstance(n.targets[0], ast.Name) and is_map(n.value) \
                        and n.targets[0].id not in aliases:
                    aliases.add(n.targets[0].id)
                    changed = True
    for s in stmts:
        for n in ast.walk(s):
            if not is_map(n):
                continue
            p = parents.get(id(n))
            if isinstance(p, ast.Assign) and n is p.value and isinstance(p.targets[0], ast.Name):
                continue  # alias binding
            if isinstance(p, ast.Compare) and n in p.comparators and all(isinstance(o, (ast.In, ast.NotIn)) for o in p.ops):
                continue
            if isinstance(p, ast.Call) and isinstance(p.func, ast.Name) and p.func.id == "len":
                continue
            if isinstance(p, ast.Attribute) and p.value is n:
                call = parents.get(id(p))
                if p.attr == "keys":
                    continue
                if p.attr in ("items", "values") and isinstance(call, ast.Call):
                    holder = parents.get(id(call))
                    tgt = None
                    scope: List[ast.AST] = []
                    body = None
                    if isinstance(holder, ast.For) and holder.iter is call:
                        tgt, scope, body = holder.target, list(holder.body), list(holder.body)
                    elif isinstance(holder, ast.comprehension) and holder.iter is call:
                        comp = parents.get(id(holder))
                        tgt = holder.target
                        scope = [x for x in ast.iter_child_nodes(comp) if not isinstance(x, ast.comprehension)] + list(holder.ifs)
                    var = None
                    if tgt is not None:
                        if p.attr == "items" and isinstance(tgt, ast.Tuple) and len(tgt.elts) == 2 and isinstance(tgt.elts[1], ast.Name):
                            var = tgt.elts[1].id
                        elif p.attr == "values" and isinstance(tgt, ast.Name):
                            var = tgt.id
                    if var is not None and value_var_weighted(var, scope, body):
                        continue
                    bad.append((n, f"the amplitudes iterated from `{norm(n)}` are used without the factor {operand}.params['coefficient']"))
                    continue
            if isinstance(p, ast.Subscript) and p.value is n and isinstance(p.ctx, ast.Load):
                if _weighted_by(p, parents, operand):
                    continue
                bad.append((p, f"`{norm(p)}` reads a raw amplitude of `{operand}` that is not multiplied by {operand}.params['coefficient']"))
                continue
            if isinstance(p, ast.Attribute) and p.value is n and p.attr in ("get", "pop", "setdefault"):
                call = parents.get(id(p))
                if isinstance(call, ast.Call) and call.func is p:
                    # `map.get(key, default)` reads a raw amplitude exactly like `map[key]`
                    if _weighted_by(call, parents, operand):
                        continue
                    bad.append((call, f"`{norm(call)}` reads a raw amplitude of `{operand}` that is not multiplied by {operand}.params['coefficient']"))
                    continue
            raise AnalysisError(f"C18f: `{norm(p)[:70]}` uses the amplitude map of `{operand}` in a way the rule has no idiom for; whether the "
                                f"amplitudes are weighted by the coefficient is undecided")
    return bad


def clause_f(ctx: Context, idx, reg) -> None:
    prep = "piquasso.instructions.preparations"
    n_arms = 0
    for cname in ("NumberState", "FockStateVector"):
        cls = idx.find_class(prep, cname)
        add = cls.methods.get("__add__")
        if add is None:
            raise AnalysisError(f"anchor vanished: {cname}.__add__")
        other = [p for p in add.params() if p != "self"][0]
        # arms: if/elif chain on isinstance(other, T)
        # (every `if isinstance(other, T)` of the method, whether the arms are chained with elif, nested under else or laid out in sequence)
        arms_ = [s for s in ast.walk(add.node) if isinstance(s, ast.If) and is_isinstance(s.test, other) is not None]
        for cur in sorted(arms_, key=lambda s_: s_.lineno):
            ii = is_isinstance(cur.test, other)
            if ii is not None:
                tcls = idx.resolve_expr(cls.module, ii[1])
                if isinstance(tcls, ClassInfo):
                    n_arms += 1
                    operands = []
                    if "coefficient" in reg.instruction(cls).all_param_keys():
                        operands.append(("self", cls))
                    if tcls.qualname in reg.instructions and "coefficient" in reg.instruction(tcls).all_param_keys():
                        operands.append((other, tcls))
                    for opname, ocls in operands:
                        if "fock_amplitude_map" not in reg.instruction(ocls).all_param_keys():
                            continue
                        raw = _raw_amplitude_uses(list(cur.body), opname)
                        key = f"{cls.qualname}.__add__|{tcls.name}-arm|{opname}.amplitudes-weighted"
                        ctx.obligation("C18f", key, not raw, f"{ctx.relpath(cls.file)}:{cur.lineno}")
                        for node, why in raw:
                            ctx.violation("C18f", key, cls.file, node.lineno,
                                          f"{cname} + {tcls.name}: {why}; the amplitudes a FockStateVector denotes are "
                                          f"coefficient * fock_amplitude_map[k], so `a + s*(a + b)` and `s*(a + b) + a` denote different superpositions",
                                          norm(node)[:80])
                    for ret, path in _paths_to_returns(cur.body, []):
                        if isinstance(ret.value, ast.Name) and ret.value.id == "NotImplemented":
                            continue
                        for opname, ocls in operands:
                            key = f"{cls.qualname}.__add__|{tcls.name}-arm|{opname}.coefficient"
                            ok = _reads_coefficient(path, opname)
                            ctx.obligation("C18f", key, ok, f"{ctx.relpath(cls.file)}:{ret.lineno}")
                            if not ok:
                                ctx.violation("C18f", key, cls.file, ret.lineno,
                                              f"{cname} + {tcls.name}: the result returned here is built without reading "
                                              f"{opname}.params['coefficient'] ({ocls.name} carries a coefficient): `a + c*b` and `c*b + a` "
                                              f"denote different superpositions", norm(ret)[:80])
    ctx.require_floor("isinstance arms of the preparation algebra", n_arms, 4)
    # WeightMixin scalar algebra: * multiplies, / divides by the same factor
    wm = idx.find_class("piquasso.core._mixins", "WeightMixin")
    mul, div = wm.methods.get("__mul__"), wm.methods.get("__truediv__")
    if mul is None or div is None:
        raise AnalysisError("anchor vanished: WeightMixin.__mul__/__truediv__")
    ok_mul = any(isinstance(n, ast.AugAssign) and isinstance(n.op, ast.Mult) and "coefficient" in norm(n.target) for n in ast.walk(mul.node))
    ok_div = "1 / coefficient" in norm(div.node) or "/ coefficient" in norm(div.node)
    ctx.obligation("C18f", f"{wm.qualname}|mul-div", ok_mul and ok_div)
    if not (ok_mul and ok_div):
        ctx.violation("C18f", f"{wm.qualname}|mul-div", wm.file, mul.line,
                      "WeightMixin: `*` no longer multiplies the coefficient or `/` no longer divides by the same factor", "coefficient *= c / __mul__(1 / c)")
    rm = wm.attrs.get("__rmul__")
    ok_r = rm is not None and isinstance(rm, ast.Name) and rm.id == "__mul__" or "__rmul__" in wm.methods
    ctx.obligation("C18f", f"{wm.qualname}|rmul", bool(ok_r))
    if not ok_r:
        ctx.violation("C18f", f"{wm.qualname}|rmul", wm.file, wm.node.lineno, "scalar * preparation is not defined (no __rmul__)", "__rmul__ = __mul__")
