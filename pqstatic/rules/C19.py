"""C19 — dual-rail translation preserves qubit-circuit statistics (engines E1 + E6).

 (a) exhaustiveness: every gate of the property's set has an arm in _map_qiskit_instr_to_pq that does not fall
     through to the final raise
 (b) for each single-qubit arm, the product of the 2x2 passive blocks of the emitted instruction list (blocks
     from gates.py, order and mode placement from the builder, symbolic angles) equals the Qiskit matrix of that
     gate including its global phase, for all angles.  On the single-photon (dual-rail) subspace the passive
     unitary acts exactly as this 2x2 matrix, with |0> = photon in the first rail.
The heralded KLM CZ/CX (fixed numeric angles, post-selection), statistics and classical control are not decided.
"""

from __future__ import annotations

import ast
from typing import Any, Dict, List, Optional, Tuple

import sympy as sp

from ..algebra import SymEval, Untranslatable, is_zero, residual_text
from ..gateblocks import InstructionListBuilder, GuardViolation
from ..index import FuncInfo, get_index, dotted, norm, const_str
from ..registry import get_registry
from ..report import Context, AnalysisError

LEVEL = "proof"
MOD = "piquasso.dual_rail_encoding"
REQUIRED = ["h", "x", "y", "z", "rx", "ry", "rz", "u", "p", "cz", "cx", "measure", "if_else"]

t, ph, lam = sp.symbols("theta phi lambda", real=True)
I = sp.I


def qiskit_reference() -> Dict[str, Tuple[List[sp.Symbol], sp.Matrix]]:
    """Qiskit's gate matrices (qiskit.circuit.library standard gates, documented matrix representations)."""
    c, s = sp.cos(t / 2), sp.sin(t / 2)
    return {
        "h": ([], sp.Matrix([[1, 1], [1, -1]]) / sp.sqrt(2)),
        "x": ([], sp.Matrix([[0, 1], [1, 0]])),
        "y": ([], sp.Matrix([[0, -I], [I, 0]])),
        "z": ([], sp.Matrix([[1, 0], [0, -1]])),
        "rx": ([t], sp.Matrix([[c, -I * s], [-I * s, c]])),
        "ry": ([t], sp.Matrix([[c, -s], [s, c]])),
        "rz": ([t], sp.Matrix([[sp.exp(-I * t / 2), 0], [0, sp.exp(I * t / 2)]])),
        "u": ([t, ph, lam], sp.Matrix([[c, -sp.exp(I * lam) * s], [sp.exp(I * ph) * s, sp.exp(I * (ph + lam)) * c]])),
        "u3": ([t, ph, lam], sp.Matrix([[c, -sp.exp(I * lam) * s], [sp.exp(I * ph) * s, sp.exp(I * (ph + lam)) * c]])),
        "p": ([t], sp.Matrix([[1, 0], [0, sp.exp(I * t)]])),
    }


def _arms(fn: FuncInfo) -> Dict[str, ast.If]:
    """gate name → the `if`/`elif` arm testing instruction_name == '<name>'."""
    arms: Dict[str, ast.If] = {}
    cur = next((s for s in fn.node.body if isinstance(s, ast.If)), None)
    while cur is not None:
        tests = cur.test.values if isinstance(cur.test, ast.BoolOp) and isinstance(cur.test.op, ast.Or) else [cur.test]
        for tst in tests:
            if isinstance(tst, ast.Compare) and len(tst.ops) == 1 and isinstance(tst.ops[0], ast.Eq):
                nm = const_str(tst.comparators[0]) or const_str(tst.left)
                if nm is not None:
                    arms[nm] = cur
            if isinstance(tst, ast.Compare) and len(tst.ops) == 1 and isinstance(tst.ops[0], ast.In) and isinstance(tst.comparators[0], (ast.Tuple, ast.List, ast.Set)):
                for e in tst.comparators[0].elts:
                    if const_str(e):
                        arms[const_str(e)] = cur
        cur = cur.orelse[0] if len(cur.orelse) == 1 and isinstance(cur.orelse[0], ast.If) else None
    return arms


def _builder_call(arm: ast.If) -> Optional[ast.Call]:
    for n in ast.walk(ast.Module(body=arm.body, type_ignores=[])):
        if isinstance(n, ast.Call) and isinstance(n.func, ast.Name) and n.func.id.startswith("_") and n.func.id.endswith("_bosonic"):
            return n
    return None


def run(ctx: Context) -> None:
    idx = get_index(ctx.repo)
    reg = get_registry(idx)
    m = idx.module(MOD)
    ctx.explanation = (
        "Each single-qubit arm of the Qiskit-to-piquasso map is translated into the product of the 2x2 blocks of the "
        "beamsplitters/phase shifters it emits (blocks taken from gates.py by the E6 translation, placement from "
        "on_modes) and compared, by normal form over symbolic angles, with the Qiskit matrix of the gate including "
        "global phase. One obligation per gate plus exhaustiveness of the dispatch."
    )
    ctx.trusted_base = ["python ast", "pqstatic/algebra.py translation table", "sympy", "Qiskit standard-gate matrices transcribed in this rule",
                        "dual-rail convention |0> = one photon in the first rail (read from _zero_bosonic_qubit_state)"]
    ctx.rule("C19a", "every gate name of the supported set has an arm in _map_qiskit_instr_to_pq")
    ctx.rule("C19b", "the emitted 2x2 transfer matrix equals the Qiskit gate matrix (with global phase) for all angles")
    mp = m.functions.get("_map_qiskit_instr_to_pq")
    if mp is None:
        raise AnalysisError("anchor vanished: _map_qiskit_instr_to_pq")
    arms = _arms(mp)
    ctx.count("arms", sorted(arms))
    for name in REQUIRED:
        ok = name in arms and not any(isinstance(n, ast.Raise) for n in arms[name].body)
        ctx.obligation("C19a", f"{MOD}:_map_qiskit_instr_to_pq|arm-{name}", ok, f"{ctx.relpath(m.path)}:{arms[name].lineno if name in arms else mp.line}")
        if not ok:
            ctx.violation("C19a", f"{MOD}:_map_qiskit_instr_to_pq|arm-{name}", m.path, mp.line,
                          f"gate `{name}` of the supported set has no arm: a circuit using it raises ValueError", f"instruction_name == '{name}'")
    # dual-rail convention
    zero = m.assigns.get("_zero_bosonic_qubit_state")
    one = m.assigns.get("_one_bosonic_qubit_state")
    conv_ok = zero is not None and one is not None and norm(zero) == "[1, 0]" and norm(one) == "[0, 1]"
    ctx.obligation("C19b", f"{MOD}|convention |0>=[1,0], |1>=[0,1]", conv_ok)
    if not conv_ok:
        raise AnalysisError("C19b: the dual-rail convention constants changed; the reference embedding must be re-derived (undecided)")
    ref = qiskit_reference()
    n_checked = 0
    for name, (angles, want) in ref.items():
        arm = arms.get(name)
        if arm is None:
            continue
        call = _builder_call(arm)
        key = f"{MOD}|{name}"
        if call is None:
            ctx.error(f"C19b: the `{name}` arm does not call a *_bosonic builder (undecided)")
            continue
        try:
            got, steps, assumptions = _translate(idx, reg, m, call, angles)
        except GuardViolation as e:
            n_checked += 1
            ctx.obligation("C19b", key, False, f"{ctx.relpath(m.path)}:{arm.lineno}")
            ctx.violation("C19b", key + "|skip-guard", m.path, getattr(e.node, "lineno", arm.lineno), f"gate `{name}`: {e}", norm(e.node).split("\n")[0])
            continue
        except Untranslatable as e:
            ctx.error(str(e))
            continue
        for a in assumptions:
            ctx.assume(a)
        n_checked += 1
        res = got - want
        ok = is_zero(res)
        ctx.obligation("C19b", key, ok, f"{ctx.relpath(m.path)}:{arm.lineno}", emitted=[s for s, _ in steps], matrix=str(got))
        if not ok:
            ctx.violation("C19b", key, m.path, arm.lineno,
                          f"the instructions emitted for the qubit gate `{name}` implement {sp.simplify(got)} on the dual-rail code space, "
                          f"Qiskit's {name} is {want}; difference {residual_text(res)} (a wrong relative or global phase changes the "
                          f"statistics of compositions and controlled uses)", "; ".join(s for s, _ in steps))
    ctx.require_floor("single-qubit dual-rail builders checked", n_checked, 9)
    # ---- (c) the order of a gate's qubit operands (control, target) reaches the mode lists unchanged ------------------
    from .C16 import ModesTaint, ORDER_DESTROYING
    enc = m.functions.get("_encode_dual_rail_from_qiskit")
    if enc is None:
        raise AnalysisError("anchor vanished: _encode_dual_rail_from_qiskit")
    n_q = 0
    for n in ast.walk(enc.node):
        if isinstance(n, (ast.Assign, ast.AnnAssign)) and n.value is not None:
            uses_qubits = [x for x in ast.walk(n.value) if isinstance(x, ast.Attribute) and x.attr == "qubits"]
            if not uses_qubits:
                continue
            n_q += 1
            destroyers = [x for x in ast.walk(n.value) if isinstance(x, ast.Call) and (dotted(x.func) or "").split(".")[-1] in ORDER_DESTROYING
                          and any(isinstance(y, ast.Attribute) and y.attr == "qubits" for y in ast.walk(x))]
            key = f"{MOD}:_encode_dual_rail_from_qiskit|qubit-operand-order"
            ctx.obligation("C19c", key, not destroyers, f"{ctx.relpath(m.path)}:{n.lineno}")
            for d_ in destroyers:
                ctx.violation("C19c", key, m.path, d_.lineno,
                              f"`{norm(d_)[:80]}` reorders the qubit operands of a gate before the mode lists are built: for "
                              f"non-symmetric two-qubit gates (cx with control index > target index) control and target are exchanged",
                              norm(d_)[:100])
    # the same through a local: names bound (transitively) to something computed from `.qubits`
    derived_q: set = set()
    ch_ = True
    while ch_:
        ch_ = False
        for a_ in ast.walk(enc.node):
            if isinstance(a_, ast.Assign):
                uses = any((isinstance(x, ast.Attribute) and x.attr == "qubits") or (isinstance(x, ast.Name) and x.id in derived_q) for x in ast.walk(a_.value))
                if uses and not any(isinstance(x, ast.Call) and (dotted(x.func) or "").split(".")[-1] in ORDER_DESTROYING for x in [a_.value]):
                    for t_ in a_.targets:
                        for x in ast.walk(t_):
                            if isinstance(x, ast.Name) and x.id not in derived_q and isinstance(t_, ast.Name):
                                derived_q.add(x.id)
                                ch_ = True
    for c_ in ast.walk(enc.node):
        if isinstance(c_, ast.Call) and (dotted(c_.func) or "").split(".")[-1] in ORDER_DESTROYING and c_.args \
                and any(isinstance(y, ast.Name) and y.id in derived_q for y in ast.walk(c_.args[0])) \
                and not any(isinstance(y, ast.Attribute) and y.attr == "qubits" for y in ast.walk(c_)):
            key = f"{MOD}:_encode_dual_rail_from_qiskit|qubit-operand-order"
            ctx.violation("C19c", key, m.path, c_.lineno,
                          f"`{norm(c_)[:80]}` reorders the qubit operands of a gate (through a local computed from `.qubits`) before the mode lists "
                          f"are built: for non-symmetric two-qubit gates (cx with control index > target index) control and target are exchanged",
                          norm(c_)[:100])
    if n_q == 0:
        raise AnalysisError("C19c: anchor vanished: no use of instruction.qubits in _encode_dual_rail_from_qiskit")
    ctx.rule("C19c", "the order of a gate's qubit operands is not sorted/uniqued before modes are assigned")
    # ---- (d) bits are resolved to circuit-global indices, never to positions in an instruction's own operand list ------
    check_condition_index(ctx, m)
    ctx.rule("C19d", "a qubit / classical bit is never resolved by its position in an instruction's own operand list (`instr.clbits.index(bit)`): "
                     "conditions and mode assignments refer to circuit-global bit indices")

    def local_positions(tree):
        return [c for c in ast.walk(tree) if isinstance(c, ast.Call) and isinstance(c.func, ast.Attribute) and c.func.attr == "index"
                and isinstance(c.func.value, ast.Attribute) and c.func.value.attr in ("clbits", "qubits")]

    fixture = ast.parse("def f(instr, cond):\n    return instr.clbits.index(cond[0])\ndef g(qc, q):\n    return qc.find_bit(q).index\n")
    if [len(local_positions(f_)) for f_ in fixture.body] != [1, 0]:
        raise AnalysisError("C19d: the rule does not behave on its inline fixture")
    n_res = sum(1 for c in ast.walk(m.tree) if isinstance(c, ast.Call) and isinstance(c.func, ast.Attribute) and c.func.attr == "find_bit")
    ctx.require_floor("global bit-index resolutions (find_bit) in the dual-rail module", n_res, 1)
    bad = local_positions(m.tree)
    # a Bit's own `_index` / `index` attribute is its position inside its register, not in the circuit: with several quantum or
    # classical registers it addresses another qubit / another measurement.  `find_bit(bit).index` (attribute of the BitLocations
    # returned by a call) is the circuit-global one.
    def register_local(tree):
        return [a_ for a_ in ast.walk(tree) if isinstance(a_, ast.Attribute) and isinstance(a_.ctx, ast.Load) and a_.attr in ("_index", "index")
                and not (isinstance(a_.value, ast.Call) and isinstance(a_.value.func, ast.Attribute) and a_.value.func.attr == "find_bit")
                and not isinstance(a_.value, ast.Call)
                and a_.attr == "_index" or (isinstance(a_, ast.Attribute) and a_.attr == "_register")]
    fx = ast.parse("def f(cond):\n    return cond[0]._index\ndef g(qc, q):\n    return qc.find_bit(q).index\n")
    if [len(register_local(f_)) for f_ in fx.body] != [1, 0]:
        raise AnalysisError("C19d: the register-local rule does not behave on its inline fixture")
    loc = register_local(m.tree)
    ctx.obligation("C19d", f"{MOD}|bits-resolved-globally", not bad and not loc, resolutions=n_res)
    for a_ in loc:
        ctx.violation("C19d", f"{MOD}|register-local-bit-index|{norm(a_)[:40]}", m.path, a_.lineno,
                      f"`{norm(a_)[:60]}` is the position of the bit inside its own register, not its index in the circuit: in a circuit built "
                      f"from several quantum / classical registers the gate or the condition addresses another qubit / another measurement "
                      f"(resolve with `find_bit(bit).index`)", norm(a_)[:100])
    for c in bad:
        ctx.violation("C19d", f"{MOD}|instruction-local-bit-position", m.path, c.lineno,
                      f"`{norm(c)[:70]}` is the position of the bit inside this instruction's own operand list, not its index in the circuit: an "
                      f"`if_else` on any classical bit other than the first one is conditioned on the wrong measurement outcome", norm(c)[:100])


def check_condition_index(ctx: Context, m) -> None:
    ctx.rule("C19e", "the condition built for a classical bit reads the measurement outcomes at positions computed from that bit's index, never at "
                     "fixed positions (first / last pair recorded)")
    fn = m.functions.get("_get_condition_function")
    if fn is None:
        raise AnalysisError("anchor vanished: _get_condition_function")
    params = set(fn.params())
    inner = [f for f in ast.walk(fn.node) if isinstance(f, ast.FunctionDef) and f is not fn.node]
    n = 0
    for f in inner:
        ps = [a.arg for a in f.args.args]
        if not ps:
            continue
        out_name = ps[0]
        # locals computed from the bit's index count as the bit's index
        dep_names = set(params)
        ch_ = True
        while ch_:
            ch_ = False
            for a_ in ast.walk(f):
                if isinstance(a_, ast.Assign) and len(a_.targets) == 1 and isinstance(a_.targets[0], ast.Name) and a_.targets[0].id not in dep_names \
                        and any(isinstance(x, ast.Name) and x.id in dep_names for x in ast.walk(a_.value)) \
                        and not any(isinstance(x, ast.Name) and x.id == out_name for x in ast.walk(a_.value)):
                    dep_names.add(a_.targets[0].id)
                    ch_ = True
        for sub in ast.walk(f):
            if isinstance(sub, ast.Subscript) and isinstance(sub.value, ast.Name) and sub.value.id == out_name and isinstance(sub.ctx, ast.Load):
                n += 1
                dep = any(isinstance(x, ast.Name) and x.id in dep_names for x in ast.walk(sub.slice))
                key = f"{MOD}:_get_condition_function|outcome index {norm(sub.slice)[:30]}"
                ctx.obligation("C19e", key, dep, f"{ctx.relpath(m.path)}:{sub.lineno}")
                if not dep:
                    ctx.violation("C19e", key, m.path, sub.lineno,
                                  f"`{norm(sub)}` reads the outcomes at a fixed position instead of the position of the bit the condition is built "
                                  f"for: a block conditioned on a measurement that is not the latest (first) one tests another qubit's outcome",
                                  norm(sub)[:100])
    if n == 0:
        raise AnalysisError("C19e: the condition function no longer indexes the outcomes (undecided)")


def _translate(idx, reg, m, call: ast.Call, angles: List[sp.Symbol], depth: int = 0):
    """Evaluate builder(args) → product matrix on the 2 rails."""
    # the list of modes is the second parameter of the mapping function, whatever it is called
    mp_ = m.functions.get("_map_qiskit_instr_to_pq")
    modes_name = mp_.params()[1] if mp_ is not None and len(mp_.params()) > 1 else "modes"
    fn = m.functions.get(call.func.id)
    if fn is None:
        raise Untranslatable(f"E6: builder {call.func.id} not found")
    params = fn.params()
    # bind actual arguments: qiskit_instruction.params[i] → angle i; *qiskit_instruction.params → all; modes[i] → rail i; *modes
    actual: List[Any] = []
    for a in call.args:
        if isinstance(a, ast.Starred):
            txt = norm(a.value)
            if txt.endswith(".params"):
                actual.extend(angles)
            elif txt == modes_name:
                actual.extend([("mode", 0), ("mode", 1)])
            else:
                raise Untranslatable(f"E6: cannot bind `*{txt}`")
            continue
        txt = norm(a)
        if ".params[" in txt and isinstance(a, ast.Subscript) and isinstance(a.slice, ast.Constant):
            actual.append(angles[a.slice.value])
        elif isinstance(a, ast.Subscript) and isinstance(a.value, ast.Name) and a.value.id == modes_name and isinstance(a.slice, ast.Constant):
            actual.append(("mode", a.slice.value))
        else:
            raise Untranslatable(f"E6: cannot bind the argument `{txt}` of {call.func.id}")
    if len(actual) != len(params):
        raise Untranslatable(f"E6: {call.func.id} takes {len(params)} arguments, the arm passes {len(actual)}")
    return _run_builder(idx, reg, m, fn, dict(zip(params, actual)), depth)


def _run_builder(idx, reg, m, fn: FuncInfo, binding: Dict[str, Any], depth: int):
    env: Dict[str, Any] = {"np": "<np>"}
    mode_index: Dict[str, int] = {}
    for p, v in binding.items():
        if isinstance(v, tuple) and v and v[0] == "mode":
            mode_index[p] = v[1]
        else:
            env[p] = v
    b = InstructionListBuilder(idx, reg, fn, env, mode_index, 2)
    # delegation: `return _other_bosonic(expr, mode)`
    body = [s for s in fn.node.body if not (isinstance(s, ast.Expr) and isinstance(s.value, ast.Constant))]
    if len(body) == 1 and isinstance(body[0], ast.Return) and isinstance(body[0].value, ast.Call) and isinstance(body[0].value.func, ast.Name):
        inner = body[0].value
        target = m.functions.get(inner.func.id)
        if target is None or depth > 3:
            raise Untranslatable(f"E6: cannot follow delegation `{norm(inner)}`")
        ev = SymEval(fn, {}, env=env)
        vals: List[Any] = []
        for a in inner.args:
            if isinstance(a, ast.Name) and a.id in mode_index:
                vals.append(("mode", mode_index[a.id]))
            else:
                vals.append(ev.ev(a))
        return _run_builder(idx, reg, m, target, dict(zip(target.params(), vals)), depth + 1)
    b.run_block(fn.node.body)
    return b.product(), b.steps, b.assumptions
