"""C20 — condition and parameter expressions are safe and mean what Python means (engine E9).

Decides, on piquasso/core/_expressions.py and piquasso/api/instruction.py as they are now:
 (a) validate-before-evaluate; (b) default-deny whitelist; (c) operator tables = Python's;
 (d) evaluator coverage of every accepted node class; (e) semantics-bearing shapes of the
 BoolOp / Compare arms; plus a repository-wide deny rule on eval/exec/compile.
"""

from __future__ import annotations

import ast
from typing import Dict, List, Optional, Set, Tuple

from .. import cfg as cfgmod
from ..astutil import flatten_guard, guarded_statements, is_isinstance, docstring_free_body, self_attr
from ..index import get_index, dotted, norm, calls_in, walk_no_nested
from ..report import Context, AnalysisError

LEVEL = "other"
MOD = "piquasso.core._expressions"

# Python's semantics of each operator token, as the `operator` function that *is* that operator
# (language reference 6.5-6.11; operator module docs "Mapping Operators to Functions").
REFERENCE = {
    "Add": "add", "Sub": "sub", "Mult": "mul", "Div": "truediv", "FloorDiv": "floordiv", "Mod": "mod",
    "Pow": "pow", "BitXor": "xor", "BitAnd": "and_", "BitOr": "or_", "LShift": "lshift", "RShift": "rshift",
    "MatMult": "matmul",
    "UAdd": "pos", "USub": "neg", "Not": "not_", "Invert": "invert",
    "Eq": "eq", "NotEq": "ne", "Lt": "lt", "LtE": "le", "Gt": "gt", "GtE": "ge", "Is": "is_", "IsNot": "is_not",
    # In / NotIn have no same-argument-order function in `operator` (contains(b, a)): any entry is flagged
}
ALIASES = {"inv": "invert", "__add__": "add", "div": "truediv"}

FORBIDDEN = {
    "Call", "Attribute", "Lambda", "IfExp", "NamedExpr", "ListComp", "SetComp", "DictComp", "GeneratorExp",
    "JoinedStr", "FormattedValue", "Starred", "Dict", "Set", "Await", "Yield", "YieldFrom", "Store", "Del",
    "comprehension", "keyword", "TemplateStr", "Interpolation",
}
OPERATOR_BASES = {
    "BINOPS": {"Add", "Sub", "Mult", "Div", "FloorDiv", "Mod", "Pow", "BitXor", "BitAnd", "BitOr", "LShift", "RShift", "MatMult"},
    "UNARYOPS": {"UAdd", "USub", "Not", "Invert"},
    "CMPOPS": {"Eq", "NotEq", "Lt", "LtE", "Gt", "GtE", "Is", "IsNot", "In", "NotIn"},
    "BOOLOPS": {"And", "Or"},
}
STRUCTURAL_EXPR = {"BoolOp", "UnaryOp", "BinOp", "Compare", "Name", "Subscript", "Constant", "List", "Tuple"}


def _ast_attr(node: ast.AST) -> Optional[str]:
    """ast.X → 'X'."""
    if isinstance(node, ast.Attribute) and isinstance(node.value, ast.Name) and node.value.id == "ast":
        return node.attr
    return None


class SetEval:
    """Evaluates the module's own set-valued literals of ast classes (no execution)."""

    def __init__(self, module, tables):
        self.m = module
        self.tables = tables

    def ev(self, node: ast.AST) -> Set[str]:
        if isinstance(node, ast.Set):
            out = set()
            for e in node.elts:
                out |= self.elt(e)
            return out
        if isinstance(node, ast.BinOp) and isinstance(node.op, ast.BitOr):
            return self.ev(node.left) | self.ev(node.right)
        if isinstance(node, ast.BinOp) and isinstance(node.op, ast.Sub):
            return self.ev(node.left) - self.ev(node.right)
        if isinstance(node, ast.Call):
            fn = dotted(node.func)
            if fn in ("set", "frozenset", "tuple", "list") and len(node.args) == 1:
                return self.ev(node.args[0])
            if fn in ("set", "frozenset") and not node.args:
                return set()
            if isinstance(node.func, ast.Attribute) and node.func.attr == "keys" and isinstance(node.func.value, ast.Name):
                t = node.func.value.id
                if t in self.tables:
                    return set(self.tables[t].keys())
        if isinstance(node, ast.Name):
            if node.id in self.tables:
                return set(self.tables[node.id].keys())
            if node.id in self.m.assigns:
                return self.ev(self.m.assigns[node.id])
        if isinstance(node, (ast.Tuple, ast.List)):
            out = set()
            for e in node.elts:
                out |= self.elt(e)
            return out
        raise AnalysisError(f"C20b: cannot evaluate set expression `{norm(node)}` in {MOD} (undecided)")

    def elt(self, e: ast.AST) -> Set[str]:
        a = _ast_attr(e)
        if a:
            return {a}
        # getattr(ast, "Index", object()) — a class that may not exist; Index is the pre-3.9 subscript wrapper
        if isinstance(e, ast.Call) and dotted(e.func) == "getattr" and len(e.args) >= 2:
            if isinstance(e.args[0], ast.Name) and e.args[0].id == "ast" and isinstance(e.args[1], ast.Constant):
                return {str(e.args[1].value)}
        if isinstance(e, ast.Starred):
            return self.ev(e.value)
        raise AnalysisError(f"C20b: unknown element `{norm(e)}` in whitelist literal (undecided)")


def _tables(ctx: Context, m) -> Dict[str, Dict[str, ast.expr]]:
    tables: Dict[str, Dict[str, ast.expr]] = {}
    for name in ("BINOPS", "UNARYOPS", "BOOLOPS", "CMPOPS"):
        node = m.assigns.get(name)
        if node is None:
            if name == "BOOLOPS":
                continue
            raise AnalysisError(f"anchor vanished: table {name} in {MOD}")
        if not isinstance(node, ast.Dict):
            raise AnalysisError(f"C20c: table {name} is not a dict literal (undecided)")
        t = {}
        for k, v in zip(node.keys, node.values):
            a = _ast_attr(k) if k is not None else None
            if a is None:
                raise AnalysisError(f"C20c: key `{norm(k)}` of {name} is not an ast class (undecided)")
            t[a] = v
        tables[name] = t
    return tables


def run(ctx: Context) -> None:
    idx = get_index(ctx.repo)
    m = idx.module(MOD)
    cls = idx.find_class(MOD, "Expression")
    ctx.explanation = (
        "Structure of the expression language decided from source: call-order (validate dominates return of "
        "__init__, _eval reachable only from __call__), the evaluated whitelist set vs a forbidden universe, "
        "operator tables vs the language reference, evaluator arm coverage, and the control-flow shape of the "
        "short-circuit and chained-comparison arms. The behaviour 'evaluates to what Python gives' is decided "
        "through these necessary structural clauses, not by evaluating expressions."
    )
    ctx.rule("C20a", "Expression.__init__ validates on every normal exit and never evaluates; _eval is entered only from __call__/_eval; str conditions/params become Expression at construction; no eval/exec/compile anywhere")
    ctx.rule("C20b", "_validate walks the whole tree, rejects by default (not isinstance(n, ALLOWED)); ALLOWED (computed) is disjoint from the forbidden node universe; names restricted to x; constants to int/float/bool")
    ctx.rule("C20c", "each operator class maps to the operator-module function that is its Python semantics; operands are passed left-to-right")
    ctx.rule("C20d", "every accepted structural node class has a returning arm in _eval; each arm consults the table of its own operator family")
    ctx.rule("C20e", "BoolOp arm: lazy in-order evaluation returning the deciding operand; Compare arm: each comparator once, stop at first false link, carry left = right")

    tables = _tables(ctx, m)
    opmod_aliases = {k for k, (mod, attr) in m.imports.items() if mod == "operator" and attr is None}

    # ---------------- (c) operator tables ---------------------------------------------------
    n_entries = 0
    for tname, t in tables.items():
        if tname == "BOOLOPS":
            continue
        for k, v in t.items():
            n_entries += 1
            key = f"{MOD}|{tname}|{k}"
            if k not in OPERATOR_BASES[tname]:
                ctx.violation("C20c", key, m.path, v.lineno, f"{k} is not an operator of the {tname} family", norm(v))
                continue
            fn = None
            if isinstance(v, ast.Attribute) and isinstance(v.value, ast.Name) and v.value.id in opmod_aliases:
                fn = v.attr
            elif isinstance(v, ast.Name) and v.id in m.imports and m.imports[v.id][0] == "operator":
                fn = m.imports[v.id][1]
            if fn is None:
                raise AnalysisError(f"C20c: value `{norm(v)}` of {tname}[{k}] is not an operator-module function (undecided)")
            fn = ALIASES.get(fn, fn)
            want = REFERENCE.get(k)
            ok = want is not None and fn == want
            ctx.obligation("C20c", key, ok, f"{ctx.relpath(m.path)}:{v.lineno}", maps_to=fn, reference=want)
            if not ok:
                ctx.violation(
                    "C20c", key, m.path, v.lineno,
                    f"{tname}[ast.{k}] is operator.{fn}, but Python's `{k}` is operator.{want}"
                    if want else f"ast.{k} has no argument-order-preserving operator function; operator.{fn} is not its semantics",
                    norm(v),
                )
    ctx.require_floor("operator table entries", n_entries, 16)

    # ---------------- (b) whitelist -----------------------------------------------------------
    if "ALLOWED" not in m.assigns:
        raise AnalysisError(f"anchor vanished: ALLOWED in {MOD}")
    allowed = SetEval(m, tables).ev(m.assigns["ALLOWED"])
    # later module-level mutations of ALLOWED
    for s in m.tree.body:
        if isinstance(s, ast.Expr) and isinstance(s.value, ast.Call) and isinstance(s.value.func, ast.Attribute):
            f = s.value.func
            if isinstance(f.value, ast.Name) and f.value.id == "ALLOWED":
                if f.attr == "discard" or f.attr == "remove":
                    try:
                        allowed -= SetEval(m, tables).elt(s.value.args[0])
                    except AnalysisError:
                        pass  # discarding a non-class placeholder (object()) removes nothing we track
                elif f.attr in ("add",):
                    allowed |= SetEval(m, tables).elt(s.value.args[0])
                elif f.attr in ("update",):
                    for a in s.value.args:
                        allowed |= SetEval(m, tables).ev(a)
                else:
                    raise AnalysisError(f"C20b: unsupported mutation ALLOWED.{f.attr}(...) (undecided)")
        if isinstance(s, ast.AugAssign) and isinstance(s.target, ast.Name) and s.target.id == "ALLOWED":
            if isinstance(s.op, ast.BitOr):
                allowed |= SetEval(m, tables).ev(s.value)
            else:
                raise AnalysisError("C20b: unsupported augmented assignment on ALLOWED (undecided)")
    # the whitelist is applied with isinstance(): an admitted class admits all of its subclasses
    import ast as _pyast
    closure = set(allowed)
    for name in sorted(allowed):
        base = getattr(_pyast, name, None)
        if isinstance(base, type):
            for other in dir(_pyast):
                o = getattr(_pyast, other)
                if isinstance(o, type) and o is not base and issubclass(o, base) and issubclass(o, _pyast.AST):
                    closure.add(other)
    widened = sorted(closure - allowed)
    if widened:
        ctx.count("ALLOWED widened by isinstance() to subclasses", widened)
    allowed = closure
    ctx.count("ALLOWED", sorted(allowed))
    # accepted => evaluable: every admitted operator node is a key of the table _eval looks it up in
    table_keys = {fam: set(t) for fam, t in tables.items()}
    for fam, universe in (("BINOPS", OPERATOR_BASES["BINOPS"]), ("UNARYOPS", OPERATOR_BASES["UNARYOPS"]), ("CMPOPS", OPERATOR_BASES["CMPOPS"]),
                          ("BOOLOPS", {"And", "Or"})):
        admitted = allowed & universe
        extra = sorted(admitted - table_keys.get(fam, set()))
        key = f"{MOD}|ALLOWED|operators-of-{fam}-are-table-keys"
        anode_ = m.assigns["ALLOWED"]
        ctx.obligation("C20b", key, not extra, f"{ctx.relpath(m.path)}:{anode_.lineno}", admitted=sorted(admitted))
        for e in extra:
            ctx.violation("C20b", f"{MOD}|ALLOWED|operator-{e}-not-in-{fam}", m.path, anode_.lineno,
                          f"the whitelist admits ast.{e} (isinstance also matches subclasses of an admitted base class) but {fam} has no entry "
                          f"for it: the expression is accepted at construction and fails only when (and if) that operator is evaluated, "
                          f"e.g. behind a short-circuit it is never rejected", f"ast.{e}")
    bad = sorted(allowed & FORBIDDEN)
    anode = m.assigns["ALLOWED"]
    ctx.obligation("C20b", f"{MOD}|ALLOWED|disjoint-from-forbidden", not bad, f"{ctx.relpath(m.path)}:{anode.lineno}",
                   allowed=sorted(allowed))
    for b in bad:
        ctx.violation("C20b", f"{MOD}|ALLOWED|{b}", m.path, anode.lineno,
                      f"whitelist admits ast.{b}, which the property says must be rejected", f"ast.{b} in ALLOWED")
    # operator classes admitted without a table entry would reach the evaluator's raise: (d)
    validate = cls.methods.get("_validate")
    if validate is None:
        raise AnalysisError("anchor vanished: Expression._validate")
    _check_validate(ctx, m, validate, allowed)

    # ---------------- (a) validate-before-evaluate --------------------------------------------------
    _check_order(ctx, idx, m, cls)

    # ---------------- (d)/(e) evaluator ------------------------------------------------------------
    _check_eval(ctx, m, cls, allowed, tables)
    _check_condition_consumer(ctx, idx)


# ------------------------------------------------------------------------------------------------


def _check_validate(ctx: Context, m, validate, allowed: Set[str]) -> None:
    fn = validate.node
    params = [a.arg for a in fn.args.args if a.arg not in ("self", "cls")]
    if not params:
        raise AnalysisError("C20b: _validate has no tree parameter (undecided)")
    tree_param = params[0]
    loops = [s for s in docstring_free_body(fn) if isinstance(s, ast.For)]
    walk_loop = None
    for lp in loops:
        it = lp.iter
        if isinstance(it, ast.Call) and dotted(it.func) == "ast.walk" and it.args and isinstance(it.args[0], ast.Name) \
                and it.args[0].id == tree_param and isinstance(lp.target, ast.Name):
            walk_loop = lp
    key = f"{MOD}|Expression._validate|walk"
    if walk_loop is None:
        ctx.violation("C20b", key, m.path, fn.lineno,
                      "_validate does not iterate ast.walk(<tree parameter>): sub-expressions can escape the whitelist",
                      "for n in ast.walk(tree)")
        return
    # nothing may return / reassign before the loop
    for s in docstring_free_body(fn):
        if s is walk_loop:
            break
        if isinstance(s, (ast.Return, ast.If, ast.Try)):
            ctx.violation("C20b", f"{MOD}|Expression._validate|early-exit", m.path, s.lineno,
                          "a statement before the whitelist loop can leave _validate without walking the tree", norm(s)[:80])
    var = walk_loop.target.id
    ctx.obligation("C20b", key, True, f"{ctx.relpath(m.path)}:{walk_loop.lineno}")

    # default-deny test: first effective statement of the loop body, unguarded
    def resolves_to_allowed(t: ast.expr) -> bool:
        if isinstance(t, ast.Name):
            if t.id == "ALLOWED":
                return True
            # local bound to tuple(ALLOWED)
            for n in ast.walk(fn):
                if isinstance(n, ast.Assign) and any(isinstance(x, ast.Name) and x.id == t.id for x in n.targets):
                    return resolves_to_allowed(n.value)
            return False
        if isinstance(t, ast.Call) and dotted(t.func) in ("tuple", "frozenset", "set", "list") and len(t.args) == 1:
            return resolves_to_allowed(t.args[0])
        return False

    deny_ok = False
    name_ok = None
    const_ok = None
    first = True
    for s in walk_loop.body:
        if isinstance(s, ast.If):
            guards = flatten_guard(s.test, True)
            raises = any(isinstance(b, ast.Raise) for b in s.body)
            # default deny
            if len(guards) == 1 and guards[0][1] is False:
                inst = is_isinstance(guards[0][0], var)
                if inst and resolves_to_allowed(inst[1]) and raises and first:
                    deny_ok = True
            # name restriction
            for g, pol in guards:
                inst = is_isinstance(g, var)
                if inst and pol and _ast_attr(inst[1]) == "Name" and raises:
                    rest = [(gg, pp) for gg, pp in guards if gg is not g]
                    name_ok = _name_restriction(rest, var)
                if inst and pol and _ast_attr(inst[1]) == "Constant" and raises:
                    rest = [(gg, pp) for gg, pp in guards if gg is not g]
                    const_ok = _const_restriction(rest, var)
            first = False
        elif isinstance(s, (ast.Continue, ast.Break, ast.Return)):
            if not deny_ok:
                ctx.violation("C20b", f"{MOD}|Expression._validate|skip", m.path, s.lineno,
                              "the loop can skip nodes before the default-deny test", norm(s))
            first = False
        else:
            first = first and isinstance(s, (ast.Assign, ast.Expr)) and not any(True for _ in calls_in(s))
    ctx.obligation("C20b", f"{MOD}|Expression._validate|default-deny", deny_ok, f"{ctx.relpath(m.path)}:{walk_loop.lineno}")
    if not deny_ok:
        ctx.violation("C20b", f"{MOD}|Expression._validate|default-deny", m.path, walk_loop.lineno,
                      "no unguarded `if not isinstance(n, ALLOWED): raise` as the first test of the walk loop "
                      "(the whitelist must reject by default)", "if not isinstance(n, allowed): raise")
    if "Name" in allowed:
        if name_ok is None:
            ctx.violation("C20b", f"{MOD}|Expression._validate|names", m.path, walk_loop.lineno,
                          "ast.Name is admitted but no test restricts identifiers to `x`", "isinstance(n, ast.Name) and n.id != 'x'")
        elif name_ok is False:
            raise AnalysisError("C20b: the ast.Name restriction has a shape the checker cannot read (undecided)")
        else:
            ctx.obligation("C20b", f"{MOD}|Expression._validate|names", True)
    if "Constant" in allowed:
        if const_ok is None:
            ctx.violation("C20b", f"{MOD}|Expression._validate|constants", m.path, walk_loop.lineno,
                          "ast.Constant is admitted but no test restricts constant types (strings/bytes would pass)",
                          "isinstance(n, ast.Constant) and not isinstance(n.value, (int, float, bool))")
        elif isinstance(const_ok, set):
            extra = const_ok - {"int", "float", "bool"}
            ctx.obligation("C20b", f"{MOD}|Expression._validate|constants", not extra, types=sorted(const_ok))
            for e in sorted(extra):
                ctx.violation("C20b", f"{MOD}|Expression._validate|constants|{e}", m.path, walk_loop.lineno,
                              f"constants of type `{e}` are accepted; the property admits numbers and booleans only", e)
        else:
            raise AnalysisError("C20b: the ast.Constant restriction has a shape the checker cannot read (undecided)")


def _name_restriction(rest, var):
    """rest must be exactly one guard: n.id != "x" (or not n.id == "x")."""
    if len(rest) != 1:
        return False
    g, pol = rest[0]
    if isinstance(g, ast.Compare) and len(g.ops) == 1 and isinstance(g.left, ast.Attribute) and g.left.attr == "id":
        c = g.comparators[0]
        if isinstance(c, ast.Constant) and c.value == "x":
            if (isinstance(g.ops[0], ast.NotEq) and pol) or (isinstance(g.ops[0], ast.Eq) and not pol):
                return True
        if isinstance(c, (ast.Tuple, ast.List, ast.Set)) and all(isinstance(e, ast.Constant) and e.value == "x" for e in c.elts):
            if (isinstance(g.ops[0], ast.NotIn) and pol) or (isinstance(g.ops[0], ast.In) and not pol):
                return True
    return False


def _const_restriction(rest, var):
    if len(rest) != 1:
        return False
    g, pol = rest[0]
    inst = is_isinstance(g)
    if inst and not pol and isinstance(inst[0], ast.Attribute) and inst[0].attr == "value":
        t = inst[1]
        elts = t.elts if isinstance(t, ast.Tuple) else [t]
        names = set()
        for e in elts:
            if isinstance(e, ast.Name):
                names.add(e.id)
            else:
                return False
        return names
    return False


def _check_order(ctx: Context, idx, m, cls) -> None:
    init = cls.methods.get("__init__")
    call = cls.methods.get("__call__")
    if init is None or call is None:
        raise AnalysisError("anchor vanished: Expression.__init__/__call__")
    g = cfgmod.build(init.node)

    def is_validate(n) -> bool:
        return any(isinstance(c, ast.Call) and self_attr(c.func) == "_validate" for c in cfgmod.own_nodes(n))

    key = f"{MOD}|Expression.__init__|validate-dominates-return"
    missing = g.must_pass_before_exit(cfgmod.ENTRY, is_validate, exits=(cfgmod.EXIT,))
    ctx.obligation("C20a", key, not missing, f"{ctx.relpath(m.path)}:{init.line}")
    if missing:
        ctx.violation("C20a", key, m.path, init.line,
                      "a path through Expression.__init__ returns normally without calling _validate", "self._validate(tree)",
                      path=missing[0][1])
    # what is validated is what is stored and later evaluated
    validated_attrs, validated_names = set(), set()
    for c in calls_in(init.node):
        if self_attr(c.func) == "_validate" and c.args:
            for n in ast.walk(c.args[0]):
                a = self_attr(n)
                if a:
                    validated_attrs.add(a)
                elif isinstance(n, ast.Name) and n.id != "self":
                    validated_names.add(n.id)
    for s in ast.walk(init.node):
        if isinstance(s, ast.Assign):
            for t in s.targets:
                a = self_attr(t)
                if a and isinstance(s.value, ast.Name) and s.value.id in validated_names:
                    validated_attrs.add(a)
    evaluated_attrs = set()
    for c in calls_in(call.node):
        if self_attr(c.func) == "_eval" and c.args:
            for n in ast.walk(c.args[0]):
                a = self_attr(n)
                if a:
                    evaluated_attrs.add(a)
    key = f"{MOD}|Expression|validated-tree-is-evaluated-tree"
    ok = bool(evaluated_attrs) and evaluated_attrs <= validated_attrs
    ctx.obligation("C20a", key, ok, validated=sorted(validated_attrs), evaluated=sorted(evaluated_attrs))
    if not ok:
        ctx.violation("C20a", key, m.path, call.line,
                      f"__call__ evaluates {sorted(evaluated_attrs)} but __init__ validated {sorted(validated_attrs)}",
                      "self._eval(self._tree.body, x)")
    # the validated attribute is written in __init__ only
    for name, meth in cls.methods.items():
        if name == "__init__":
            continue
        for n in ast.walk(meth.node):
            if isinstance(n, ast.Attribute) and isinstance(n.ctx, ast.Store) and self_attr(n) in evaluated_attrs:
                ctx.violation("C20a", f"{MOD}|Expression.{name}|rebinds-{n.attr}", m.path, n.lineno,
                              f"Expression.{name} rebinds self.{n.attr} after validation", norm(n))
    # __init__ must not evaluate
    for c in calls_in(init.node):
        if self_attr(c.func) in ("_eval", "__call__") or (isinstance(c.func, ast.Name) and c.func.id == "self"):
            ctx.violation("C20a", f"{MOD}|Expression.__init__|evaluates", m.path, c.lineno,
                          "Expression.__init__ evaluates the expression", norm(c))
    # who calls _eval / eval / exec / compile anywhere in the package
    n_eval_callers = 0
    for mod in idx.modules.values():
        for fn in list(mod.functions.values()) + [f for c in mod.classes.values() for f in c.methods.values()]:
            for c in calls_in(fn.node):
                f = c.func
                if isinstance(f, ast.Attribute) and f.attr == "_eval":
                    n_eval_callers += 1
                    ok = fn.cls is cls and fn.name in ("__call__", "_eval")
                    ctx.instance("C20a", f"{fn.qualname}|calls-_eval", "ok" if ok else "VIOLATION",
                                 f"{ctx.relpath(mod.path)}:{c.lineno}")
                    if not ok:
                        ctx.violation("C20a", f"{fn.qualname}|calls-_eval", mod.path, c.lineno,
                                      "_eval is entered from outside Expression.__call__ (bypasses validation order)", norm(c))
                if isinstance(f, ast.Name) and f.id in ("eval", "exec", "compile", "__import__"):
                    ctx.violation("C20a", f"{fn.qualname}|builtin-{f.id}", mod.path, c.lineno,
                                  f"builtin {f.id}() is used in the package; expression strings must never reach it", norm(c)[:80])
        for c in calls_in(mod.tree, nested=False):
            if isinstance(c.func, ast.Name) and c.func.id in ("eval", "exec", "compile"):
                ctx.violation("C20a", f"{mod.name}|module-level-{c.func.id}", mod.path, c.lineno,
                              f"builtin {c.func.id}() at module level", norm(c)[:80])
    ctx.require_floor("_eval call sites", n_eval_callers, 8)

    # construction sites: Instruction.when and Instruction._get_unresolved_params
    im = idx.module("piquasso.api.instruction")
    icls = idx.find_class("piquasso.api.instruction", "Instruction")
    when = icls.methods.get("when")
    gup = icls.methods.get("_get_unresolved_params")
    iinit = icls.methods.get("__init__")
    if not (when and gup and iinit):
        raise AnalysisError("anchor vanished: Instruction.when/_get_unresolved_params/__init__")

    def is_expression_ctor(call_node: ast.Call) -> bool:
        r = idx.resolve_expr(im, call_node.func)
        return r is cls

    # when(): every store to self._condition under the str guard is Expression(condition); nothing stores the raw str
    cond_param = [p for p in when.params() if p != "self"][0]
    ok_when = False
    for s, guards in guarded_statements(when.node.body):
        if isinstance(s, ast.Assign) and any(self_attr(t) == "_condition" for t in s.targets):
            under_str = any(
                pol and (ii := is_isinstance(g, cond_param)) and isinstance(ii[1], ast.Name) and ii[1].id == "str"
                for g, pol in guards
            )
            v = s.value
            is_expr = isinstance(v, ast.Call) and is_expression_ctor(v) and v.args and isinstance(v.args[0], ast.Name) \
                and v.args[0].id == cond_param
            under_not_str = any(
                (not pol) and (ii := is_isinstance(g, cond_param)) and isinstance(ii[1], ast.Name) and ii[1].id == "str"
                for g, pol in guards
            )
            if under_str and is_expr:
                ok_when = True
            elif isinstance(v, ast.Name) and v.id == cond_param and not under_not_str:
                ctx.violation("C20a", "piquasso.api.instruction:Instruction.when|raw-condition", im.path, s.lineno,
                              "a condition may be stored without being turned into a validated Expression when it is a string",
                              norm(s))
    ctx.obligation("C20a", "piquasso.api.instruction:Instruction.when|str-becomes-Expression", ok_when,
                   f"{ctx.relpath(im.path)}:{when.line}")
    if not ok_when:
        ctx.violation("C20a", "piquasso.api.instruction:Instruction.when|str-becomes-Expression", im.path, when.line,
                      "Instruction.when does not construct Expression(condition) for string conditions at call time",
                      "self._condition = Expression(condition)")
    # _get_unresolved_params
    ok_gup = False
    for n in ast.walk(gup.node):
        if isinstance(n, ast.DictComp) and isinstance(n.value, ast.Call) and is_expression_ctor(n.value):
            for gen in n.generators:
                for cond in gen.ifs:
                    ii = is_isinstance(cond)
                    if ii and isinstance(ii[1], ast.Name) and ii[1].id == "str":
                        ok_gup = True
        if isinstance(n, ast.If):
            for g, pol in flatten_guard(n.test, True):
                ii = is_isinstance(g)
                if pol and ii and isinstance(ii[1], ast.Name) and ii[1].id == "str":
                    if any(isinstance(c, ast.Call) and is_expression_ctor(c) for b in n.body for c in ast.walk(b)):
                        ok_gup = True
    called_in_init = cfgmod.build(iinit.node).must_pass_before_exit(
        cfgmod.ENTRY,
        lambda nd: any(isinstance(c, ast.Call) and (self_attr(c.func) == "_get_unresolved_params"
                                                      or dotted(c.func) in ("Instruction._get_unresolved_params",))
                       for c in cfgmod.own_nodes(nd)),
        exits=(cfgmod.EXIT,),
    )
    ok = ok_gup and not called_in_init
    ctx.obligation("C20a", "piquasso.api.instruction:Instruction.__init__|str-params-become-Expression", ok,
                   f"{ctx.relpath(im.path)}:{gup.line}")
    if not ok:
        ctx.violation("C20a", "piquasso.api.instruction:Instruction.__init__|str-params-become-Expression", im.path, gup.line,
                      "string parameters are not turned into validated Expressions at construction time",
                      "Expression(param) for isinstance(param, str)")


def _arm_of(test: ast.expr) -> Optional[str]:
    ii = is_isinstance(test, None)
    if ii and isinstance(ii[0], ast.Name):
        return _ast_attr(ii[1])
    return None


def _check_eval(ctx: Context, m, cls, allowed: Set[str], tables) -> None:
    ev = cls.methods.get("_eval")
    call = cls.methods.get("__call__")
    if ev is None:
        raise AnalysisError("anchor vanished: Expression._eval")
    node_param = [p for p in ev.params() if p != "self"][0]
    arms: Dict[str, ast.If] = {}
    for s in docstring_free_body(ev.node):
        if isinstance(s, ast.If):
            cur: Optional[ast.If] = s
            while cur is not None:
                a = None
                ii = is_isinstance(cur.test, node_param)
                if ii:
                    a = _ast_attr(ii[1])
                    if a:
                        arms[a] = cur
                    elif isinstance(ii[1], ast.Tuple):
                        for e in ii[1].elts:
                            if _ast_attr(e):
                                arms[_ast_attr(e)] = cur
                cur = cur.orelse[0] if len(cur.orelse) == 1 and isinstance(cur.orelse[0], ast.If) else None
    ctx.count("_eval arms", sorted(arms))
    need = sorted((allowed & STRUCTURAL_EXPR))
    for a in need:
        key = f"{MOD}|Expression._eval|arm-{a}"
        arm = arms.get(a)
        ok = arm is not None
        if ok:
            # the arm must not fall through: every path through its body ends in return/raise
            ok = _always_exits(arm.body)
        ctx.obligation("C20d", key, ok, f"{ctx.relpath(m.path)}:{arm.lineno if arm else ev.line}")
        if not ok:
            ctx.violation("C20d", key, m.path, arm.lineno if arm else ev.line,
                          f"ast.{a} is accepted by the whitelist but _eval has no returning arm for it "
                          f"(an accepted expression would hit the final raise or fall through)", f"isinstance(node, ast.{a})")
    # Slice is handled inside the Subscript arm, Expression by __call__ passing .body
    if "Slice" in allowed and "Subscript" in arms:
        ok = any(_ast_attr(ii[1]) == "Slice" for n in ast.walk(arms["Subscript"]) if isinstance(n, ast.Call)
                 and (ii := is_isinstance(n)) is not None)
        ctx.obligation("C20d", f"{MOD}|Expression._eval|arm-Slice", ok)
        if not ok:
            ctx.violation("C20d", f"{MOD}|Expression._eval|arm-Slice", m.path, arms["Subscript"].lineno,
                          "ast.Slice is accepted but the Subscript arm never tests for it", "isinstance(sl, ast.Slice)")
    if "Expression" in allowed and call is not None:
        ok = any(self_attr(c.func) == "_eval" and c.args and isinstance(c.args[0], ast.Attribute) and c.args[0].attr == "body"
                 for c in calls_in(call.node))
        ctx.obligation("C20d", f"{MOD}|Expression.__call__|unwraps-Expression-root", ok)
        if not ok:
            ctx.violation("C20d", f"{MOD}|Expression.__call__|unwraps-Expression-root", m.path, call.line,
                          "__call__ does not pass the body of the ast.Expression root to _eval", "self._eval(self._tree.body, x)")
    # operator families admitted by the whitelist must be the ones the arm consults
    fam_arm = {"UNARYOPS": "UnaryOp", "BINOPS": "BinOp", "CMPOPS": "Compare"}
    for tname, armname in fam_arm.items():
        arm = arms.get(armname)
        if arm is None:
            continue
        used = {n.func.value.id for n in ast.walk(arm) if isinstance(n, ast.Call) and isinstance(n.func, ast.Attribute)
                and n.func.attr == "get" and isinstance(n.func.value, ast.Name)} | \
               {n.value.id for n in ast.walk(arm) if isinstance(n, ast.Subscript) and isinstance(n.value, ast.Name)
                and n.value.id in tables}
        key = f"{MOD}|Expression._eval|arm-{armname}|table"
        ok = used == {tname}
        ctx.obligation("C20d", key, ok, uses=sorted(used))
        if not ok:
            ctx.violation("C20d", key, m.path, arm.lineno,
                          f"the {armname} arm consults {sorted(used)} instead of {tname}", f"{tname}.get(type(node.op))")
    # operand order
    _check_operand_order(ctx, m, arms, node_param)
    # (e) shapes
    _check_boolop(ctx, m, arms.get("BoolOp"), node_param)
    _check_compare(ctx, m, arms.get("Compare"), node_param)
    _check_subscript(ctx, m, arms.get("Subscript"), node_param)


def _always_exits(stmts: List[ast.stmt]) -> bool:
    if not stmts:
        return False
    last = stmts[-1]
    if isinstance(last, (ast.Return, ast.Raise)):
        return True
    if isinstance(last, ast.If):
        return _always_exits(last.body) and _always_exits(last.orelse)
    if isinstance(last, ast.Try):
        return _always_exits(last.body) and all(_always_exits(h.body) for h in last.handlers)
    return False


def _is_eval_of(call: ast.AST, what: str) -> bool:
    """self._eval(<what>, x) where <what> unparsed equals `what`."""
    return isinstance(call, ast.Call) and self_attr(call.func) == "_eval" and call.args and norm(call.args[0]) == what


def _check_operand_order(ctx, m, arms, p) -> None:
    arm = arms.get("BinOp")
    if arm is not None:
        ok = None
        for r in ast.walk(arm):
            if isinstance(r, ast.Return) and isinstance(r.value, ast.Call) and len(r.value.args) == 2:
                a, b = r.value.args
                if _is_eval_of(a, f"{p}.left") and _is_eval_of(b, f"{p}.right"):
                    ok = True
                elif _is_eval_of(a, f"{p}.right") and _is_eval_of(b, f"{p}.left"):
                    ok = False
        key = f"{MOD}|Expression._eval|arm-BinOp|operand-order"
        if ok is None:
            raise AnalysisError("C20c: BinOp arm has a shape the checker cannot read (undecided)")
        ctx.obligation("C20c", key, ok)
        if not ok:
            ctx.violation("C20c", key, m.path, arm.lineno, "binary operands are passed right-to-left (a - b becomes b - a)",
                          "fn(eval(node.left), eval(node.right))")
    arm = arms.get("UnaryOp")
    if arm is not None:
        ok = any(isinstance(r, ast.Return) and isinstance(r.value, ast.Call) and len(r.value.args) == 1
                 and _is_eval_of(r.value.args[0], f"{p}.operand") for r in ast.walk(arm))
        key = f"{MOD}|Expression._eval|arm-UnaryOp|operand"
        if not ok:
            raise AnalysisError("C20c: UnaryOp arm has a shape the checker cannot read (undecided)")
        ctx.obligation("C20c", key, ok)


def _check_boolop(ctx, m, arm, p) -> None:
    if arm is None:
        return
    for opname, want_pol in (("And", False), ("Or", True)):
        key = f"{MOD}|Expression._eval|arm-BoolOp|{opname}"
        sub = None
        for n in ast.walk(arm):
            if isinstance(n, ast.If):
                ii = is_isinstance(n.test)
                if ii and _ast_attr(ii[1]) == opname and norm(ii[0]) == f"{p}.op":
                    sub = n
        if sub is None:
            ctx.violation("C20e", key, m.path, arm.lineno, f"no sub-arm for `{opname.lower()}` in the BoolOp arm",
                          f"isinstance(node.op, ast.{opname})")
            continue
        body = sub.body
        # eager forms: any _eval inside a comprehension / all() / any() in this sub-arm
        for n in ast.walk(sub):
            if isinstance(n, (ast.ListComp, ast.GeneratorExp, ast.SetComp)) and any(
                isinstance(c, ast.Call) and self_attr(c.func) == "_eval" for c in ast.walk(n)
            ):
                ctx.violation("C20e", key, m.path, n.lineno,
                              f"`{opname.lower()}` operands are evaluated through a comprehension/all/any: the result is a bool "
                              f"(or evaluation is eager), not the deciding operand as in Python", norm(n)[:80])
                break
        else:
            loop = next((s for s in body if isinstance(s, ast.For)), None)
            if loop is None:
                raise AnalysisError(f"C20e: {opname} sub-arm has no loop and no comprehension (shape unreadable, undecided)")
            problems = []
            if norm(loop.iter) != f"{p}.values":
                problems.append(f"operands are iterated as `{norm(loop.iter)}`, not `{p}.values` in order")
            v = loop.target.id if isinstance(loop.target, ast.Name) else None
            res = None
            test_if = None
            for s in loop.body:
                if isinstance(s, ast.Assign) and _is_eval_of(s.value, v or "?") and isinstance(s.targets[0], ast.Name):
                    res = s.targets[0].id
                if isinstance(s, ast.If) and res is not None and test_if is None:
                    test_if = s
            if res is None or test_if is None:
                raise AnalysisError(f"C20e: {opname} loop body has a shape the checker cannot read (undecided)")
            guards = flatten_guard(test_if.test, True)
            if not (len(guards) == 1 and isinstance(guards[0][0], ast.Name) and guards[0][0].id == res):
                raise AnalysisError(f"C20e: {opname} stop test `{norm(test_if.test)}` unreadable (undecided)")
            if guards[0][1] != want_pol:
                problems.append(
                    f"`{opname.lower()}` stops on a {'truthy' if guards[0][1] else 'falsy'} operand; Python stops on a "
                    f"{'truthy' if want_pol else 'falsy'} one")
            rets = [s for s in test_if.body if isinstance(s, ast.Return)]
            if not rets:
                problems.append("the stop test does not return inside the loop (no short circuit)")
            elif not (isinstance(rets[0].value, ast.Name) and rets[0].value.id == res):
                problems.append(f"short circuit returns `{norm(rets[0].value) if rets[0].value else None}`, not the deciding operand")
            after = [s for s in body[body.index(loop) + 1:] if isinstance(s, ast.Return)]
            if not after or not (isinstance(after[0].value, ast.Name) and after[0].value.id == res):
                problems.append("after the loop the arm does not return the last operand value")
            ctx.obligation("C20e", key, not problems, f"{ctx.relpath(m.path)}:{sub.lineno}")
            for pr in problems:
                ctx.violation("C20e", key, m.path, sub.lineno, pr, norm(loop).split("\n")[0])


def _check_compare(ctx, m, arm, p) -> None:
    if arm is None:
        return
    key = f"{MOD}|Expression._eval|arm-Compare"
    body = arm.body
    loop = next((s for s in body if isinstance(s, ast.For)), None)
    if loop is None:
        raise AnalysisError("C20e: Compare arm has no loop (shape unreadable, undecided)")
    problems = []
    # laziness first (independent of the loop's shape): no comparator may be evaluated by a comprehension / map over
    # node.comparators, i.e. before the earlier links have been tested
    for n in ast.walk(arm):
        if isinstance(n, (ast.ListComp, ast.GeneratorExp, ast.SetComp)) and any(
                f"{p}.comparators" in norm(g.iter) for g in n.generators) and any(
                isinstance(c, ast.Call) and self_attr(c.func) == "_eval" for c in ast.walk(n.elt)):
            ctx.obligation("C20e", key + "|lazy", False, f"{ctx.relpath(m.path)}:{n.lineno}")
            ctx.violation("C20e", key + "|lazy", m.path, n.lineno,
                          f"`{norm(n)[:70]}` evaluates every comparator before the first link is tested: Python stops a chained comparison at "
                          f"the first false link, so `1 > 2 < x[9]` is False in Python but raises (or costs an evaluation) here", norm(n)[:90])
            return
    it = loop.iter
    if not (isinstance(it, ast.Call) and dotted(it.func) == "zip" and [norm(a) for a in it.args] == [f"{p}.ops", f"{p}.comparators"]):
        problems.append(f"links are iterated as `{norm(it)}`, not zip({p}.ops, {p}.comparators)")
    tgt = loop.target
    if not (isinstance(tgt, ast.Tuple) and len(tgt.elts) == 2 and all(isinstance(e, ast.Name) for e in tgt.elts)):
        raise AnalysisError("C20e: Compare loop target unreadable (undecided)")
    opv, rexpr = tgt.elts[0].id, tgt.elts[1].id
    left = None
    for s in body[: body.index(loop)]:
        if isinstance(s, ast.Assign) and _is_eval_of(s.value, f"{p}.left") and isinstance(s.targets[0], ast.Name):
            left = s.targets[0].id
    if left is None:
        raise AnalysisError("C20e: Compare arm does not bind eval(node.left) before the loop (undecided)")
    n_eval = sum(1 for n in ast.walk(loop) if _is_eval_of(n, rexpr))
    if n_eval != 1:
        problems.append(f"each comparator is evaluated {n_eval} times per link; Python evaluates it exactly once")
    right = None
    fnv = None
    carried = False
    stop_ok = False
    seen_test = False
    for s in loop.body:
        if isinstance(s, ast.Assign) and isinstance(s.targets[0], ast.Name):
            if _is_eval_of(s.value, rexpr):
                right = s.targets[0].id
            elif isinstance(s.value, ast.Call) and isinstance(s.value.func, ast.Attribute) and s.value.func.attr == "get":
                fnv = s.targets[0].id
                if norm(s.value.args[0]) != f"type({opv})":
                    problems.append(f"operator looked up by `{norm(s.value.args[0])}`, not type({opv})")
            elif s.targets[0].id == left and isinstance(s.value, ast.Name) and s.value.id == right and seen_test:
                carried = True
        if isinstance(s, ast.If):
            gs = flatten_guard(s.test, True)
            if len(gs) == 1 and isinstance(gs[0][0], ast.Call) and isinstance(gs[0][0].func, ast.Name) and gs[0][0].func.id == fnv:
                seen_test = True
                c = gs[0][0]
                args = [norm(a) for a in c.args]
                if args != [left, right]:
                    problems.append(f"link is tested as {fnv}({', '.join(args)}), not {fnv}({left}, {right})")
                rets = [b for b in s.body if isinstance(b, ast.Return)]
                if gs[0][1] is False and rets and isinstance(rets[0].value, ast.Constant) and rets[0].value.value is False:
                    stop_ok = True
    if not seen_test:
        raise AnalysisError("C20e: Compare loop has no readable link test (undecided)")
    if not stop_ok:
        problems.append("the chain does not stop with False at the first false link")
    if not carried:
        problems.append("the right operand is not carried over as the next link's left operand (a < b < c would compare a with c)")
    after = [s for s in body[body.index(loop) + 1:] if isinstance(s, ast.Return)]
    if not (after and isinstance(after[0].value, ast.Constant) and after[0].value.value is True):
        problems.append("a chain whose links all hold does not return True")
    ctx.obligation("C20e", key, not problems, f"{ctx.relpath(m.path)}:{arm.lineno}")
    for pr in problems:
        ctx.violation("C20e", key, m.path, arm.lineno, pr, norm(loop).split("\n")[0])


def _check_subscript(ctx, m, arm, p) -> None:
    """seq[slice(start, stop, step)] takes lower/upper/step in that order; seq is eval(node.value)."""
    if arm is None:
        return
    key = f"{MOD}|Expression._eval|arm-Subscript|slice-fields"
    # an evaluated bound must never be used as a truth value: `eval(part) or None` / `eval(part) if eval(part) else ..` turns the
    # legitimate bounds 0 and False into "absent" (x[:0] would return the whole tuple)
    def has_eval(e):
        return any(isinstance(c, ast.Call) and self_attr(c.func) == "_eval" for c in ast.walk(e))
    for n in ast.walk(arm):
        bad = None
        if isinstance(n, ast.BoolOp) and any(has_eval(v) for v in n.values):
            bad = n
        elif isinstance(n, ast.IfExp) and has_eval(n.test):
            bad = n
        elif isinstance(n, ast.If) and n is not arm and has_eval(n.test):
            bad = n
        if bad is not None:
            k2 = f"{MOD}|Expression._eval|arm-Subscript|evaluated-bound-used-as-truth-value"
            ctx.obligation("C20e", k2, False, f"{ctx.relpath(m.path)}:{bad.lineno}")
            ctx.violation("C20e", k2, m.path, bad.lineno,
                          f"`{norm(bad)[:70]}` uses the *value* of an evaluated index or slice bound as a truth value: a bound that evaluates to 0 (or "
                          f"False) is replaced as if it were absent, so `x[:0]` is the whole tuple here and `()` in Python; whether a bound is "
                          f"present is a property of the syntax tree (`sl.upper is None`), not of its value", norm(bad)[:100])
            return
    binds = {}
    for n in ast.walk(arm):
        if isinstance(n, ast.Assign) and isinstance(n.targets[0], ast.Name):
            v = n.value
            if isinstance(v, ast.IfExp):
                v = v.body
            if isinstance(v, ast.Call) and self_attr(v.func) == "_eval" and v.args and isinstance(v.args[0], ast.Attribute):
                binds[n.targets[0].id] = v.args[0].attr
    for n in ast.walk(arm):
        if isinstance(n, ast.Call) and isinstance(n.func, ast.Name) and n.func.id == "slice" and len(n.args) == 3:
            fields = [binds.get(a.id) if isinstance(a, ast.Name) else None for a in n.args]
            ok = fields == ["lower", "upper", "step"]
            ctx.obligation("C20e", key, ok, fields=fields)
            if not ok:
                ctx.violation("C20e", key, m.path, n.lineno,
                              f"slice() receives {fields}; Python's x[a:b:c] is slice(lower, upper, step)", norm(n))
            return
    if any(isinstance(n, ast.Attribute) and n.attr == "Slice" for n in ast.walk(arm)):
        raise AnalysisError("C20e: the Subscript arm handles ast.Slice but no `slice(lower, upper, step)` call with three plain arguments "
                            "was found (shape unreadable, undecided)")


# ================================================================================================ (f)


def _check_condition_consumer(ctx: Context, idx) -> None:
    """A condition means what `if <expr>:` means in Python: its value is consumed through truthiness.  Between the call
    `self._condition(outcomes)` and the `if` that decides whether the instruction runs, the value may be returned,
    passed through `bool(...)`, or negated - never compared (`== True`, `is True`, `== 1`): a condition such as `x[0]`
    with outcome 2 is true in Python and would become false."""
    ctx.rule("C20f", "the value of a condition is consumed by truthiness only (returned, bool(...), not, if); it is never compared with True/False/1/0 or tested with `is`")
    icls = idx.find_class("piquasso.api.instruction", "Instruction")
    fn = icls.methods.get("_is_condition_met")
    if fn is None:
        raise AnalysisError("anchor vanished: Instruction._is_condition_met")
    parents = {}
    for n in ast.walk(fn.node):
        for c in ast.iter_child_nodes(n):
            parents[id(c)] = n
    calls = [c for c in ast.walk(fn.node) if isinstance(c, ast.Call) and self_attr(c.func) == "_condition"]
    if not calls:
        raise AnalysisError("anchor vanished: the call self._condition(outcomes) in Instruction._is_condition_met")
    aliases = set()
    for n in ast.walk(fn.node):
        if isinstance(n, ast.Assign) and len(n.targets) == 1 and isinstance(n.targets[0], ast.Name) and any(n.value is c for c in calls):
            aliases.add(n.targets[0].id)
    uses = list(calls) + [n for n in ast.walk(fn.node) if isinstance(n, ast.Name) and n.id in aliases and isinstance(n.ctx, ast.Load)]
    key = f"{icls.qualname}._is_condition_met|truthiness-only"
    bad = []
    for u in uses:
        cur = u
        while True:
            p = parents.get(id(cur))
            if isinstance(p, ast.Call) and isinstance(p.func, ast.Name) and p.func.id == "bool" and cur in p.args:
                cur = p
                continue
            if isinstance(p, ast.UnaryOp) and isinstance(p.op, ast.Not):
                cur = p
                continue
            break
        if isinstance(p, ast.Compare):
            bad.append(p)
        elif isinstance(p, ast.BinOp):
            bad.append(p)
    ctx.obligation("C20f", key, not bad, f"{ctx.relpath(fn.file)}:{fn.line}", uses=len(uses))
    for b in bad:
        ctx.violation("C20f", key, fn.file, b.lineno,
                      f"`{norm(b)[:70]}` compares (or computes with) the value of the condition instead of using its truth value: a condition "
                      f"like `x[0]` with outcome 2, or `x[0] and x[1]` returning 3, is true in Python but is treated as not met", norm(b)[:100])
    # an error raised while the condition is evaluated is an error in Python (`if x[1] == 2:` on a one-element tuple raises IndexError): a
    # handler around the call may re-raise (wrapped), it may not turn the error into "met" / "not met"
    keyh = f"{icls.qualname}._is_condition_met|errors stay errors"
    swallow = []
    for t in ast.walk(fn.node):
        if isinstance(t, ast.Try) and any(any(x is c for x in ast.walk(t)) for c in calls):
            for h in t.handlers:
                ends = h.body[-1] if h.body else None
                if not isinstance(ends, ast.Raise) and not any(isinstance(x, ast.Raise) for x in ast.walk(h)):
                    swallow.append(h)
    ctx.obligation("C20f", keyh, not swallow, f"{ctx.relpath(fn.file)}:{fn.line}")
    for h in swallow:
        ctx.violation("C20f", keyh, fn.file, h.lineno,
                      f"`except {norm(h.type) if h.type is not None else ''}` around the evaluation of the condition does not re-raise: an expression that "
                      f"raises in Python (an index beyond the outcomes recorded so far, a division by zero) silently counts as not met / met and the "
                      f"conditioned instruction is skipped or applied", norm(h).split(chr(10))[0][:100])
    # the caller decides by truthiness as well
    sim = idx.find_class("piquasso.api.simulator", "Simulator")
    n_sites = 0
    for f in sim.methods.values():
        ps = {}
        for n in ast.walk(f.node):
            for c in ast.iter_child_nodes(n):
                ps[id(c)] = n
        for c in ast.walk(f.node):
            if isinstance(c, ast.Call) and isinstance(c.func, ast.Attribute) and c.func.attr == "_is_condition_met":
                n_sites += 1
                p = ps.get(id(c))
                while isinstance(p, ast.UnaryOp) and isinstance(p.op, ast.Not):
                    p = ps.get(id(p))
                ok = isinstance(p, (ast.If, ast.IfExp, ast.While, ast.BoolOp))
                k2 = f"{f.qualname}|condition-decides-by-truthiness"
                ctx.obligation("C20f", k2, ok, f"{ctx.relpath(f.file)}:{c.lineno}")
                if not ok:
                    ctx.violation("C20f", k2, f.file, c.lineno,
                                  f"the result of _is_condition_met is used in `{norm(p)[:60]}` rather than as the test of an `if`", norm(p)[:90])
    ctx.require_floor("call sites of _is_condition_met", n_sites, 1)
