"""Shared reader for the bosonic Fock-space recurrence of an interferometer (used by C09h and C10f).

  numba   piquasso._simulators.connectors.numpy_.interferometer.calculate_interferometer_on_fock_space   (loop nest)
  generic <connector base class>.calculate_interferometer_on_fock_space                                  (einsum)
  grad    piquasso._simulators.fock.pure.simulation_steps.passive_linear._calculate_subspace_grad        (loop nest)
          driven by _calculate_interferometer_gradient_on_fock_space

All three are read into the index-notation normal form of `pqstatic/loopnest.py`.
"""

from __future__ import annotations

import ast
from typing import Any, Dict, List, Optional, Tuple

from .. import loopnest as ln
from ..index import FuncInfo, dotted, get_index, norm
from ..report import AnalysisError, Context

NUMBA_MOD = "piquasso._simulators.connectors.numpy_.interferometer"
GENERIC_MOD = "piquasso._simulators.connectors.connector"
GRAD_MOD = "piquasso._simulators.fock.pure.simulation_steps.passive_linear"
NAME = "calculate_interferometer_on_fock_space"
OUT = ("o0", "o1")

_cache: Dict[str, Dict[str, Any]] = {}


def _offset(e: ast.AST, var: str) -> Optional[int]:
    """`var`, `var - k`, `var + k` -> 0, -k, +k"""
    if isinstance(e, ast.Name) and e.id == var:
        return 0
    if isinstance(e, ast.BinOp) and isinstance(e.left, ast.Name) and e.left.id == var and isinstance(e.right, ast.Constant) \
            and isinstance(e.right.value, int):
        if isinstance(e.op, ast.Sub):
            return -e.right.value
        if isinstance(e.op, ast.Add):
            return e.right.value
    return None


def _level_loop(fn_node: ast.AST) -> ast.For:
    loops = [s for s in ast.walk(fn_node) if isinstance(s, ast.For) and isinstance(s.iter, ast.Call)
             and (dotted(s.iter.func) or "").split(".")[-1] == "range" and len(s.iter.args) == 2
             and isinstance(s.iter.args[0], ast.Constant) and s.iter.args[0].value == 2 and isinstance(s.target, ast.Name)]
    if len(loops) != 1:
        raise AnalysisError(f"interferometer recurrence: expected one level loop `for n in range(2, cutoff)`, found {len(loops)}")
    return loops[0]


class _Hook:
    """recognises `helper[q][n - 2]` (table q of the level) and `representations[n - 1]` (the previous level)"""

    def __init__(self, helper: str, reps: str, level: str):
        self.helper, self.reps, self.level = helper, reps, level
        self.table_offsets: set = set()
        self.prev_offsets: set = set()

    def __call__(self, e: ast.AST) -> Optional[ln.Arr]:
        if not isinstance(e, ast.Subscript):
            return None
        b = e.value
        if isinstance(b, ast.Subscript) and isinstance(b.value, ast.Name) and b.value.id == self.helper \
                and isinstance(b.slice, ast.Constant) and isinstance(b.slice.value, int):
            off = _offset(e.slice, self.level)
            if off is None:
                raise ln.Unreadable(f"table `{norm(e)}` is not addressed by the level")
            self.table_offsets.add(off)
            return ln.Arr(f"H{b.slice.value}")
        if isinstance(b, ast.Name) and b.id == self.reps:
            off = _offset(e.slice, self.level)
            if off is None:
                return None
            self.prev_offsets.add(off)
            return ln.Arr("PREV")
        return None


class _HookedLoopReader(ln.LoopReader):
    def __init__(self, env, hook):
        super().__init__(env)
        self.hook = hook

    def ev(self, e):
        if self.hook is not None:
            a = self.hook(e)
            if a is not None:
                return a
        return super().ev(e)


class _HookedArrayReader(ln.ArrayReader):
    def __init__(self, env, ranks, defs, hook):
        super().__init__(env, ranks, defs)
        self.hook = hook

    def rank(self, e):
        a = self.hook(e)
        if a is not None:
            return self.ranks[a.sym]
        return super().rank(e)

    def elem(self, e, ix):
        a = self.hook(e)
        if a is not None:
            if self.ranks[a.sym] != len(ix):
                raise ln.Unreadable(f"`{norm(e)}` has rank {self.ranks[a.sym]}, read with {len(ix)} indices")
            return ln.fac(a.at(ix).factor())
        return super().elem(e, ix)


def _reps_name(fn_node: ast.AST) -> str:
    """the list the levels are appended to: the local initialised with `[]` that is returned"""
    for s in ast.walk(fn_node):
        if isinstance(s, ast.Return) and isinstance(s.value, ast.Name):
            return s.value.id
    raise AnalysisError("interferometer recurrence: the list of representations is not returned by name")


def _ranks(poly: ln.Poly) -> Dict[str, int]:
    out: Dict[str, int] = {}

    def visit(x):
        if x[0] == "f":
            out[x[1]] = max(out.get(x[1], 0), len(x[2]))
            for i in x[2]:
                visit(i)
        elif x[0] == "d":
            visit(x[1])
            visit(x[2])
    for _, f, _ in poly:
        for x, _e in f:
            visit(x)
    return out


def read_numba(fn: FuncInfo) -> Dict[str, Any]:
    params = fn.params()
    loop = _level_loop(fn.node)
    reps = _reps_name(fn.node)
    hook = _Hook(params[1], reps, loop.target.id)
    rd = _HookedLoopReader({params[0]: ln.Arr("U")}, hook)
    rd.block(loop.body)
    accs = [r for r in rd.results if isinstance(r, ln.Acc)]
    if len(accs) != 1:
        raise ln.Unreadable("numba recurrence: the level loop does not append exactly one accumulator")
    poly = rd.poly_of(accs[0], OUT)
    return {"poly": poly, "nf": ln.normal_form(poly), "table_offsets": sorted(hook.table_offsets), "prev_offsets": sorted(hook.prev_offsets),
            "axis_conflicts": rd.axis_conflicts(), "line": loop.lineno}


def read_generic(fn: FuncInfo, ranks: Dict[str, int]) -> Dict[str, Any]:
    params = fn.params()
    if params and params[0] == "self":
        params = params[1:]
    loop = _level_loop(fn.node)
    reps = _reps_name(fn.node)
    hook = _Hook(params[1], reps, loop.target.id)
    env: Dict[str, ln.Arr] = {params[0]: ln.Arr("U")}
    defs: Dict[str, ast.AST] = {}
    appended: List[ast.AST] = []
    for s in loop.body:
        if isinstance(s, ast.Assign) and len(s.targets) == 1 and isinstance(s.targets[0], ast.Name):
            nm = s.targets[0].id
            if nm in defs or nm in env:
                raise ln.Unreadable(f"generic recurrence: `{nm}` is assigned twice")
            a = hook(s.value)
            if a is not None:
                env[nm] = a
            else:
                defs[nm] = s.value
        elif isinstance(s, ast.Expr) and isinstance(s.value, ast.Call) and isinstance(s.value.func, ast.Attribute) \
                and s.value.func.attr == "append" and isinstance(s.value.func.value, ast.Name) and s.value.func.value.id == reps:
            appended.append(s.value.args[0])
        elif isinstance(s, ast.Expr) and isinstance(s.value, ast.Constant):
            continue
        else:
            raise ln.Unreadable(f"generic recurrence: statement `{norm(s)[:60]}`")
    if len(appended) != 1:
        raise ln.Unreadable("generic recurrence: the level loop does not append exactly one representation")
    rk = dict(ranks)
    rk.setdefault("U", 2)
    rk.setdefault("PREV", 2)
    rd = _HookedArrayReader(env, rk, defs, hook)
    poly = rd.elem(appended[0], (("v", OUT[0]), ("v", OUT[1])))
    return {"poly": poly, "nf": ln.normal_form(poly), "table_offsets": sorted(hook.table_offsets), "prev_offsets": sorted(hook.prev_offsets),
            "line": loop.lineno}


# ------------------------------------------------------------------------------------------------ the gradient and its driver
def _parents(root: ast.AST) -> Dict[ast.AST, ast.AST]:
    par: Dict[ast.AST, ast.AST] = {}
    for n in ast.walk(root):
        for c in ast.iter_child_nodes(n):
            par[c] = n
    return par


def read_gradient(grad_fn: FuncInfo, driver: FuncInfo) -> Dict[str, Any]:
    par = _parents(driver.node)
    calls = [c for c in ast.walk(driver.node) if isinstance(c, ast.Call) and (dotted(c.func) or "").split(".")[-1] == grad_fn.name]
    if len(calls) != 1:
        raise AnalysisError(f"gradient driver: expected one call of {grad_fn.name}, found {len(calls)}")
    call = calls[0]
    # enclosing loops and function
    loops: List[ast.For] = []
    inner_fn: Optional[ast.AST] = None
    n = call
    while n in par:
        n = par[n]
        if isinstance(n, ast.For):
            loops.append(n)
        if isinstance(n, (ast.FunctionDef, ast.Lambda)) and inner_fn is None:
            inner_fn = n
    level = [lp for lp in loops if isinstance(lp.iter, ast.Call) and len(lp.iter.args) == 2]
    if len(level) != 1 or not isinstance(level[0].target, ast.Name):
        raise AnalysisError("gradient driver: the level loop `for p in range(2, cutoff)` was not found around the call")
    lvl = level[0].target.id
    scope = inner_fn if inner_fn is not None else driver.node
    # single definitions inside the scope (last assignment before use is enough here: locals are defined once per iteration)
    defs: Dict[str, List[ast.AST]] = {}
    unpack: Dict[str, Tuple[str, int]] = {}
    for s in ast.walk(scope):
        if isinstance(s, ast.Assign) and len(s.targets) == 1:
            t = s.targets[0]
            if isinstance(t, ast.Name):
                defs.setdefault(t.id, []).append(s.value)
            elif isinstance(t, ast.Tuple) and isinstance(s.value, ast.Name) and all(isinstance(x, ast.Name) for x in t.elts):
                for k, x in enumerate(t.elts):
                    unpack[x.id] = (s.value.id, k)
    outer_params = driver.params()
    # the unit-matrix base case  E[A, B] = 1.0
    unit: Optional[Tuple[str, str, str]] = None
    for s in ast.walk(scope):
        if isinstance(s, ast.Assign) and isinstance(s.targets[0], ast.Subscript) and isinstance(s.value, ast.Constant) and s.value.value in (1, 1.0):
            t = s.targets[0]
            if isinstance(t.value, ast.Name) and isinstance(t.slice, ast.Tuple) and len(t.slice.elts) == 2 \
                    and all(isinstance(x, ast.Name) for x in t.slice.elts):
                unit = (t.value.id, t.slice.elts[0].id, t.slice.elts[1].id)
    if unit is None:
        raise AnalysisError("gradient driver: the base case `E[row, col] = 1.0` was not found")
    facts: Dict[str, Any] = {"unit": unit, "table_offsets": set(), "prev_offsets": set(), "tables_source": set()}

    def table(e: ast.AST) -> Optional[ln.Arr]:
        """T[p - 2] with T unpacked from position q of the index tuple"""
        if isinstance(e, ast.Subscript) and isinstance(e.value, ast.Name) and e.value.id in unpack:
            off = _offset(e.slice, lvl)
            if off is not None:
                src, q = unpack[e.value.id]
                facts["table_offsets"].add(off)
                facts["tables_source"].add(src)
                return ln.Arr(f"H{q}")
        if isinstance(e, ast.Subscript) and isinstance(e.value, ast.Subscript) and isinstance(e.value.value, ast.Name) \
                and e.value.value.id in outer_params and isinstance(e.value.slice, ast.Constant):
            off = _offset(e.slice, lvl)
            if off is not None:
                facts["table_offsets"].add(off)
                facts["tables_source"].add(e.value.value.id)
                return ln.Arr(f"H{e.value.slice.value}")
        return None

    def resolve(e: ast.AST, depth: int = 0):
        if depth > 4:
            raise AnalysisError("gradient driver: definition chain too long")
        if isinstance(e, ast.Tuple):
            return tuple(resolve(x, depth + 1) for x in e.elts)
        t = table(e)
        if t is not None:
            return t
        if isinstance(e, ast.Subscript) and isinstance(e.value, ast.Name) and _offset(e.slice, lvl) is not None \
                and e.value.id in outer_params:
            facts["prev_offsets"].add(_offset(e.slice, lvl))
            facts["reps_param"] = e.value.id
            return ln.Arr("PREV")
        if isinstance(e, ast.Name):
            if e.id == unit[1]:
                return ln.Var("r")
            if e.id == unit[2]:
                return ln.Var("c")
            if e.id in outer_params and e.id == outer_params[0]:
                return ln.Arr("U")
            ds = defs.get(e.id, [])
            # the carried derivative: initialised from the unit matrix, re-assigned from the result of the call
            if ds and any(isinstance(d, ast.Name) and d.id == unit[0] for d in ds):
                res_names = [k for k, v in defs.items() if any(x is call for x in v)]
                carried = any(isinstance(d, ast.Name) and d.id in res_names for d in ds)
                facts["carry"] = carried
                facts["carry_name"] = e.id
                return ln.Arr("PGRAD")
            if len(ds) == 1:
                return resolve(ds[0], depth + 1)
        raise AnalysisError(f"gradient driver: argument `{norm(e)[:50]}` of {grad_fn.name} could not be given a role")

    gparams = grad_fn.params()
    if call.keywords or len(call.args) != len(gparams):
        bound = {}
        for k, a in enumerate(call.args):
            bound[gparams[k]] = a
        for kw in call.keywords:
            bound[kw.arg] = kw.value
    else:
        bound = dict(zip(gparams, call.args))
    env: Dict[str, Any] = {}
    for p, a in bound.items():
        v = resolve(a)
        env[p] = v
    rd = ln.LoopReader(env)
    rd.block(grad_fn.node.body)
    accs = [r for r in rd.results if isinstance(r, ln.Acc)]
    if len(accs) != 1:
        raise ln.Unreadable("gradient: the function does not return exactly one accumulator")
    poly = rd.poly_of(accs[0], OUT)
    # the level the upstream cotangent is taken from
    up_offsets = set()
    for c in ast.walk(level[0]):
        if isinstance(c, ast.Subscript) and isinstance(c.value, ast.Name) and c.value.id.startswith("upstream"):
            off = _offset(c.slice, lvl)
            if off is not None:
                up_offsets.add(off)
    facts["upstream_offsets"] = up_offsets
    return {"poly": poly, "nf": ln.normal_form(poly), "facts": facts, "line": call.lineno, "axis_conflicts": rd.axis_conflicts()}


def analyse(ctx: Context) -> Dict[str, Any]:
    if ctx.repo in _cache:
        return _cache[ctx.repo]
    idx = get_index(ctx.repo)
    out: Dict[str, Any] = {}
    numba_fn = idx.find_function(NUMBA_MOD, NAME)
    out["numba_fn"] = numba_fn
    out["numba"] = read_numba(numba_fn)
    generic_fn = None
    for cls in idx.module(GENERIC_MOD).classes.values():
        m = cls.methods.get(NAME) if hasattr(cls, "methods") else None
        if m is not None and not m.is_stub_raise():
            generic_fn = m
    if generic_fn is None:
        raise AnalysisError(f"anchor vanished: a generic {NAME} in {GENERIC_MOD}")
    out["generic_fn"] = generic_fn
    grad_fn = idx.find_function(GRAD_MOD, "_calculate_subspace_grad")
    driver = idx.find_function(GRAD_MOD, "_calculate_interferometer_gradient_on_fock_space")
    out["grad_fn"], out["driver_fn"] = grad_fn, driver
    out["grad"] = read_gradient(grad_fn, driver)
    # the ranks of the tables are what the two loop nests subscript them with
    ranks = _ranks(out["grad"]["poly"])
    ranks.pop("PGRAD", None)
    for k, v in _ranks(out["numba"]["poly"]).items():
        ranks[k] = max(ranks.get(k, 0), v)
    out["generic"] = read_generic(generic_fn, ranks)
    _cache[ctx.repo] = out
    return out
