"""shots=None discipline (shared by C03b and C13e).

A step that can be invoked with shots=None (every step of a non-measurement instruction, and the steps
registered for `_measurement_classes_allowed_with_shots_none`) must not use `shots` numerically on any
path on which it may still be None.  Numeric use = operand of arithmetic / ordering comparison, argument
of Fraction/range/int/len-like builtins or of a third-party call (size=shots, k=shots), or passing it to an
in-package callee whose own parameter is used numerically without a dominating None test.
"""

from __future__ import annotations

import ast
from typing import Dict, List, Optional, Set, Tuple

from . import cfg as cfgmod
from .callgraph import get_resolver
from .index import FuncInfo, dotted, norm, walk_no_nested
from .report import Context, AnalysisError


def _none_test(test: ast.AST, var: str) -> Optional[bool]:
    """True: test ≡ (var is None); False: test ≡ (var is not None); None: something else."""
    pol = True
    while isinstance(test, ast.UnaryOp) and isinstance(test.op, ast.Not):
        pol = not pol
        test = test.operand
    if isinstance(test, ast.Compare) and len(test.ops) == 1 and isinstance(test.left, ast.Name) and test.left.id == var \
            and isinstance(test.comparators[0], ast.Constant) and test.comparators[0].value is None:
        if isinstance(test.ops[0], (ast.Is, ast.Eq)):
            return pol
        if isinstance(test.ops[0], (ast.IsNot, ast.NotEq)):
            return not pol
    return None


class ShotsAnalysis:
    def __init__(self, idx):
        self.idx = idx
        self.res = get_resolver(idx)
        self.memo: Dict[Tuple[int, str], list] = {}

    def unsafe_uses(self, fn: FuncInfo, var: str, depth: int = 0) -> list:
        """Numeric uses of `var` reachable while it may be None → [(file, line, text, via)]."""
        key = (id(fn.node), var)
        if key in self.memo:
            return self.memo[key]
        self.memo[key] = []
        g = cfgmod.build(fn.node)
        # reassignment of var (e.g. shots = cast(int, shots)) ends tracking conservatively
        # names of dicts carrying shots=var
        carriers: Set[str] = set()
        for n in walk_no_nested(fn.node):
            if isinstance(n, ast.Assign) and len(n.targets) == 1 and isinstance(n.targets[0], ast.Name) \
                    and isinstance(n.value, ast.Call) and dotted(n.value.func) == "dict":
                if any(isinstance(k.value, ast.Name) and k.value.id == var for k in n.value.keywords):
                    carriers.add(n.targets[0].id)

        def edge_ok(node: cfgmod.Node, label: str) -> bool:
            if node.kind == "test" and isinstance(node.stmt, ast.If) and label in ("true", "false"):
                t = _none_test(node.stmt.test, var)
                if t is True and label == "false":
                    return False
                if t is False and label == "true":
                    return False
            return True

        seen = {cfgmod.ENTRY}
        stack = [cfgmod.ENTRY]
        while stack:
            nid = stack.pop()
            for (m, label) in g.succ[nid]:
                if not edge_ok(g.nodes[nid], label):
                    continue
                if m not in seen:
                    seen.add(m)
                    stack.append(m)
        out = []
        for nid in seen:
            node = g.nodes[nid]
            if node.stmt is None or node.kind in ("with_exit", "dispatch", "handler"):
                continue
            for use in self._numeric_uses(fn, node, var, carriers, depth):
                out.append(use)
        # de-duplicate (finally copies)
        uniq = []
        for u in out:
            if u not in uniq:
                uniq.append(u)
        self.memo[key] = uniq
        return uniq

    def _numeric_uses(self, fn: FuncInfo, node: cfgmod.Node, var: str, carriers: Set[str], depth: int) -> list:
        out = []
        own = list(cfgmod.own_nodes(node))
        guarded_ids: Set[int] = set()
        for n in own:
            if isinstance(n, ast.IfExp):
                t = _none_test(n.test, var)
                if t is False:
                    guarded_ids |= {id(x) for x in ast.walk(n.body)}
                elif t is True:
                    guarded_ids |= {id(x) for x in ast.walk(n.orelse)}
            if isinstance(n, ast.BoolOp) and isinstance(n.op, ast.And):
                # `shots is not None and shots > 3`
                for i, v in enumerate(n.values):
                    if _none_test(v, var) is False:
                        for later in n.values[i + 1:]:
                            guarded_ids |= {id(x) for x in ast.walk(later)}
            if isinstance(n, ast.BoolOp) and isinstance(n.op, ast.Or):
                for i, v in enumerate(n.values):
                    if _none_test(v, var) is True:
                        for later in n.values[i + 1:]:
                            guarded_ids |= {id(x) for x in ast.walk(later)}

        def is_var(x):
            return isinstance(x, ast.Name) and x.id == var and id(x) not in guarded_ids

        for n in own:
            if id(n) in guarded_ids:
                continue
            if isinstance(n, ast.BinOp) and (is_var(n.left) or is_var(n.right)):
                out.append((fn.file, n.lineno, norm(n), fn.qualname))
            elif isinstance(n, ast.UnaryOp) and isinstance(n.op, (ast.USub, ast.UAdd)) and is_var(n.operand):
                out.append((fn.file, n.lineno, norm(n), fn.qualname))
            elif isinstance(n, ast.AugAssign) and (is_var(n.target) or is_var(n.value)):
                out.append((fn.file, n.lineno, norm(n), fn.qualname))
            elif isinstance(n, ast.Compare):
                ops_numeric = any(isinstance(o, (ast.Lt, ast.LtE, ast.Gt, ast.GtE)) for o in n.ops)
                if ops_numeric and (is_var(n.left) or any(is_var(c) for c in n.comparators)):
                    out.append((fn.file, n.lineno, norm(n), fn.qualname))
            elif isinstance(n, ast.Call):
                passes = [(i, a) for i, a in enumerate(n.args) if is_var(a)]
                kw_passes = [(k.arg, k.value) for k in n.keywords if k.arg and is_var(k.value)]
                star_carriers = [k.value.id for k in n.keywords if k.arg is None and isinstance(k.value, ast.Name) and k.value.id in carriers]
                if not passes and not kw_passes and not star_carriers:
                    continue
                fname = dotted(n.func) or ""
                if fname in ("dict", "cast", "typing.cast", "isinstance", "print", "repr", "str", "Branch"):
                    continue
                targets = self.res.resolve_call(fn, n)
                if not targets:
                    # a local variable holding a step (e.g. particle_number_measurement_simulation_step(state, instruction, shots))
                    if isinstance(n.func, ast.Name) and (n.func.id in fn.all_params() or any(
                            n.func.id in f.all_params() for f in [fn])):
                        continue  # forwarded to another step that is analysed on its own
                    if isinstance(n.func, ast.Name) and n.func.id in ("execute",):
                        continue
                    enclosing_params = self._enclosing_params(fn)
                    if isinstance(n.func, ast.Name) and n.func.id in enclosing_params:
                        continue
                    # third-party / builtin call receiving shots: numeric
                    out.append((fn.file, n.lineno, norm(n)[:90], fn.qualname))
                    continue
                if depth > 6:
                    continue
                for t in targets:
                    tparams = t.params()
                    off = 1 if (t.cls is not None and tparams and tparams[0] in ("self", "cls")) else 0
                    # constructor calls resolved to __init__
                    names = []
                    for i, _a in passes:
                        if i + off < len(tparams):
                            names.append(tparams[i + off])
                    for k, _v in kw_passes:
                        if k in t.all_params():
                            names.append(k)
                    if star_carriers and var in t.all_params():
                        names.append(var)
                    if star_carriers and "shots" in t.all_params():
                        names.append("shots")
                    for pn in set(names):
                        for u in self.unsafe_uses(t, pn, depth + 1):
                            out.append((fn.file, n.lineno, f"{norm(n)[:60]} -> {u[2]}", f"{fn.qualname} -> {u[3]}"))
        return out

    def _enclosing_params(self, fn: FuncInfo) -> Set[str]:
        # for <locals> functions: parameters of the enclosing function (closures over step callables)
        if ".<locals>." not in fn.qualname:
            return set()
        outer_q = fn.qualname.split(".<locals>.")[0]
        mod, _, name = outer_q.partition(":")
        m = self.idx.modules.get(mod)
        if not m:
            return set()
        if name in m.functions:
            return set(m.functions[name].all_params())
        return set()


def check_shots_none(ctx: Context, idx, reg, rule: str) -> None:
    an = ShotsAnalysis(idx)
    res = an.res
    meas = idx.find_class("piquasso.api.instruction", "Measurement")
    n_steps = 0
    seen: Set[Tuple[str, str]] = set()
    for s in reg.simulators:
        allowed = set(c.qualname for c in s.allowed_shots_none)
        for e in s.entries:
            is_meas = e.instr.is_subclass_of(meas)
            if is_meas and e.instr.qualname not in allowed:
                continue  # refused before the step is called (C13a dominance obligation)
            steps: List[FuncInfo] = []
            if e.step is not None:
                steps.append(e.step)
            if e.factory is not None:
                steps.extend(e.factory_args.values())
                for loc in res.local_defs(e.factory).values():
                    if "shots" in loc.all_params():
                        steps.append(loc)
            for step in steps:
                params = step.all_params()
                var = "shots" if "shots" in params else (params[2] if len(params) >= 3 else None)
                if var is None:
                    continue
                k = (step.qualname, var)
                if k in seen:
                    continue
                seen.add(k)
                n_steps += 1
                uses = an.unsafe_uses(step, var)
                key = f"{step.qualname}|shots-none-safe"
                ctx.instance(rule, key, "ok" if not uses else "VIOLATION", f"{ctx.relpath(step.file)}:{step.line}",
                             admitted_for=e.instr.name, simulator=s.cls.name)
                for (file, line, text, via) in uses:
                    ctx.violation(rule, f"{via}|{text[:70]}", file, line,
                                  f"`shots` is used numerically while it may be None: step {step.name} is reachable with shots=None "
                                  f"(registered for {e.instr.name} in {s.cls.name}) and this use is not dominated by a `shots is None` test",
                                  text)
    ctx.require_floor("steps reachable with shots=None", n_steps, 40)
