"""Index-notation normal form for small matrix expressions (E6-index).

An expression is evaluated *elementwise*: `ev(expr, (j, k))` is the polynomial for the element [j, k] - a list of
terms, each a rational coefficient times a product of factors `sym[idx...]` (optionally conjugated), Kronecker
deltas, and a set of summed (dummy) indices.  Supported: names (opaque matrices / earlier assignments),
`np.identity/eye`, `np.conj(X)` / `X.conj()`, `X.T`, `X @ Y`, elementwise `*`, `+`, `-`, numeric constants,
`X[np.ix_(I, J)]`, row selection `X[m, I]`, `np.outer(u, w)`.  Anything else raises `Untranslatable` (the rule
then reports the obligation as undecided, never as a violation).  Normal form: dummy indices renamed canonically,
factors sorted, like terms combined.  No execution of repository code.
"""

from __future__ import annotations

import ast
import itertools
from fractions import Fraction
from typing import Dict, FrozenSet, List, Optional, Tuple

from .index import dotted

Factor = Tuple[str, bool, Tuple[str, ...]]  # symbol, conjugated, indices
Term = Tuple[Fraction, Tuple[Factor, ...], FrozenSet[str]]


class Untranslatable(Exception):
    pass


class Env:
    def __init__(self) -> None:
        self.defs: Dict[str, Tuple[ast.AST, "Env"]] = {}

    def copy(self) -> "Env":
        e = Env()
        e.defs = dict(self.defs)
        return e


class Translator:
    def __init__(self) -> None:
        self._fresh = itertools.count()

    def fresh(self) -> str:
        return f"~{next(self._fresh)}"

    def ev(self, e: ast.AST, ix: Tuple[str, ...], env: Env) -> List[Term]:
        if isinstance(e, ast.Constant) and isinstance(e.value, (int, float)) and not isinstance(e.value, bool):
            return [(Fraction(e.value).limit_denominator(10**9), (), frozenset())]
        if isinstance(e, ast.Name):
            if e.id in env.defs:
                expr, env0 = env.defs[e.id]
                return self.ev(expr, ix, env0)
            return [(Fraction(1), ((e.id, False, tuple(ix)),), frozenset())]
        if isinstance(e, ast.UnaryOp) and isinstance(e.op, ast.USub):
            return [(-c, f, s) for c, f, s in self.ev(e.operand, ix, env)]
        if isinstance(e, ast.Attribute) and e.attr == "T":
            if len(ix) != 2:
                raise Untranslatable(".T of a non-matrix")
            return self.ev(e.value, (ix[1], ix[0]), env)
        if isinstance(e, ast.BinOp):
            if isinstance(e.op, (ast.Add, ast.Sub)):
                l = self.ev(e.left, ix, env)
                r = self.ev(e.right, ix, env)
                if isinstance(e.op, ast.Sub):
                    r = [(-c, f, s) for c, f, s in r]
                return l + r
            if isinstance(e.op, ast.MatMult):
                if len(ix) != 2:
                    raise Untranslatable("matrix product with rank != 2")
                s = self.fresh()
                return self.mul(self.ev(e.left, (ix[0], s), env), self.ev(e.right, (s, ix[1]), env), extra=frozenset({s}))
            if isinstance(e.op, ast.Mult):
                return self.mul(self.ev(e.left, ix, env), self.ev(e.right, ix, env))
            raise Untranslatable(f"operator {type(e.op).__name__}")
        if isinstance(e, ast.Call):
            name = (dotted(e.func) or "").split(".")[-1]
            if name in ("identity", "eye") and e.args:
                if len(ix) != 2:
                    raise Untranslatable("identity with rank != 2")
                return [(Fraction(1), (("δ", False, tuple(sorted(ix))),), frozenset())]
            if name in ("conj", "conjugate"):
                inner = e.args[0] if e.args else (e.func.value if isinstance(e.func, ast.Attribute) else None)
                if inner is None:
                    raise Untranslatable("conj without operand")
                return [(c, tuple((sy, (not cj) if sy != "δ" else False, i) for sy, cj, i in f), s) for c, f, s in self.ev(inner, ix, env)]
            if name == "outer" and len(e.args) == 2:
                if len(ix) != 2:
                    raise Untranslatable("outer with rank != 2")
                return self.mul(self.ev(e.args[0], (ix[0],), env), self.ev(e.args[1], (ix[1],), env))
            if name in ("array", "asarray", "copy") and len(e.args) == 1:
                return self.ev(e.args[0], ix, env)
            raise Untranslatable(f"call {name}")
        if isinstance(e, ast.Subscript):
            sl = e.slice
            if isinstance(sl, ast.Call) and (dotted(sl.func) or "").split(".")[-1] == "ix_" and len(sl.args) == len(ix) \
                    and all(isinstance(a, ast.Name) for a in sl.args):
                return self.ev(e.value, tuple(f"{a.id}[{i}]" for a, i in zip(sl.args, ix)), env)
            if isinstance(sl, ast.Tuple) and len(sl.elts) == 2 and all(isinstance(a, ast.Name) for a in sl.elts) and len(ix) == 1:
                row, cols = sl.elts
                return self.ev(e.value, (f"{row.id}", f"{cols.id}[{ix[0]}]"), env)
            raise Untranslatable("subscript form")
        raise Untranslatable(type(e).__name__)

    @staticmethod
    def mul(a: List[Term], b: List[Term], extra: FrozenSet[str] = frozenset()) -> List[Term]:
        return [(ca * cb, fa + fb, sa | sb | extra) for ca, fa, sa in a for cb, fb, sb in b]


def sum_over(terms: List[Term], index: str) -> List[Term]:
    """Σ over a free index that the terms mention (a loop variable)."""
    return [(c, f, s | {index}) for c, f, s in terms]


def normal_form(terms: List[Term]) -> Dict[Tuple[Tuple[Factor, ...], int], Fraction]:
    out: Dict[Tuple[Tuple[Factor, ...], int], Fraction] = {}
    for c, factors, sums in terms:
        key = _canon(factors, sums)
        out[key] = out.get(key, Fraction(0)) + c
    return {k: v for k, v in out.items() if v != 0}


def _canon(factors: Tuple[Factor, ...], sums: FrozenSet[str]) -> Tuple[Tuple[Factor, ...], int]:
    """Rename the dummy indices canonically: try every assignment of canonical names to the (few) dummies and keep the
    lexicographically smallest sorted factor list."""
    dummies = sorted(d for d in sums if any(_mentions(i, d) for _, _, ix in factors for i in ix))
    best: Optional[Tuple[Factor, ...]] = None
    if len(dummies) > 5:
        raise Untranslatable("too many dummy indices")
    for perm in itertools.permutations(range(len(dummies))):
        ren = {d: f"@{p}" for d, p in zip(dummies, perm)}
        fs = tuple(sorted((sy, cj, tuple(_rename(i, ren) for i in ix)) for sy, cj, ix in factors))
        if best is None or fs < best:
            best = fs
    return (best if best is not None else tuple(sorted(factors)), len(dummies))


def _mentions(index: str, d: str) -> bool:
    return index == d or f"[{d}]" in index


def _rename(index: str, ren: Dict[str, str]) -> str:
    if index in ren:
        return ren[index]
    for d, n in ren.items():
        if f"[{d}]" in index:
            return index.replace(f"[{d}]", f"[{n}]")
    return index


def show(nf: Dict[Tuple[Tuple[Factor, ...], int], Fraction]) -> str:
    parts = []
    for (factors, nd), c in sorted(nf.items()):
        fs = " ".join(("conj " if cj else "") + f"{sy}[{', '.join(ix)}]" for sy, cj, ix in factors)
        parts.append(f"{'+' if c > 0 else '-'}{'' if abs(c) == 1 else abs(c)} {'Σ ' if nd else ''}{fs}".strip())
    return "  ".join(parts) or "0"
