"""The documented matrices of gates.py docstrings (`S_{(c)} = \\begin{bmatrix} ... \\end{bmatrix}`) as sympy matrices.

A small recursive-descent reader for exactly the LaTeX fragment the repository's docstrings use:
  numbers, i, single-letter symbols, \\phi, \\phi_{int}, \\frac{a}{b}, e^{...}, \\cosh x, \\sinh x, \\cos x, \\sin x, ( ),
  + -, juxtaposition as product, an empty cell as 0, an optional scalar prefactor between `=` and `\\begin{bmatrix}`.
Anything else raises TexUnreadable (reported as undecided, never guessed).
"""

from __future__ import annotations

import re
from typing import Callable, Dict, List, Optional, Tuple

import sympy as sp

from .report import AnalysisError


class TexUnreadable(AnalysisError):
    pass


TOKEN = re.compile(r"\s*(\\[A-Za-z]+|[0-9]+(?:\.[0-9]+)?|[A-Za-z]|[{}()^_+\-*/])")

FUNCS = {"\\cosh": sp.cosh, "\\sinh": sp.sinh, "\\cos": sp.cos, "\\sin": sp.sin, "\\exp": sp.exp}
GREEK = {"\\phi", "\\theta", "\\alpha", "\\gamma", "\\xi"}


_IGNORED = ("\\left", "\\right", "\\,", "\\;", "\\!", "\\:", "\\quad", "\\qquad", "\\displaystyle")


def tokenize(s: str) -> List[str]:
    out, pos = [], 0
    for ig in _IGNORED:
        s = s.replace(ig, " ")
    s = s.replace("\\tfrac", "\\frac").replace("\\dfrac", "\\frac").replace("\\cdot", "*").replace("\\times", "*")
    s = s.replace("\\mathrm{e}", "e").replace("\\mathrm{i}", "i")
    s = s.strip()
    while pos < len(s):
        m = TOKEN.match(s, pos)
        if not m:
            if s[pos:].strip() == "":
                break
            raise TexUnreadable(f"tex: cannot tokenise `{s[pos:pos + 20]}`")
        out.append(m.group(1))
        pos = m.end()
    return out


class Parser:
    def __init__(self, toks: List[str], symbol: Callable[[str], sp.Expr]):
        self.t = toks
        self.i = 0
        self.symbol = symbol

    def peek(self) -> Optional[str]:
        return self.t[self.i] if self.i < len(self.t) else None

    def take(self, want: Optional[str] = None) -> str:
        tok = self.peek()
        if tok is None or (want is not None and tok != want):
            raise TexUnreadable(f"tex: expected `{want}` but found `{tok}`")
        self.i += 1
        return tok

    def expr(self) -> sp.Expr:
        v = self.term()
        while self.peek() in ("+", "-"):
            op = self.take()
            r = self.term()
            v = v + r if op == "+" else v - r
        return v

    def term(self) -> sp.Expr:
        sign = 1
        while self.peek() in ("-", "+"):
            if self.take() == "-":
                sign = -sign
        v = self.factor()
        while True:
            p = self.peek()
            if p is None or p in ("+", "-", ")", "}"):
                break
            if p == "*":
                self.take()
                continue
            if p == "/":
                self.take()
                v = v / self.factor()
                continue
            v = v * self.factor()
        return sign * v

    def group(self) -> sp.Expr:
        self.take("{")
        v = self.expr() if self.peek() != "}" else sp.Integer(1)
        self.take("}")
        return v

    def name_group(self) -> str:
        self.take("{")
        s = ""
        while self.peek() != "}":
            s += self.take()
        self.take("}")
        return s

    def factor(self) -> sp.Expr:
        v = self.atom()
        if self.peek() == "^":
            self.take()
            e = self.group() if self.peek() == "{" else self.atom()
            v = v ** e
        return v

    def atom(self) -> sp.Expr:
        tok = self.take()
        if re.fullmatch(r"[0-9]+(\.[0-9]+)?", tok):
            return sp.Rational(tok)
        if tok == "(":
            v = self.expr()
            self.take(")")
            return v
        if tok == "{":
            self.i -= 1
            return self.group()
        if tok == "\\frac":
            a = self.group()
            b = self.group()
            return a / b
        if tok == "\\sqrt":
            return sp.sqrt(self.group())
        if tok == "\\pi":
            return sp.pi
        if tok in FUNCS:
            return FUNCS[tok](self.factor())
        if tok == "\\overline":
            return sp.conjugate(self.group())
        if tok == "i":
            return sp.I
        if tok == "e":
            if self.peek() == "^":
                return sp.E
            return self.symbol("e")
        if tok in GREEK or re.fullmatch(r"[A-Za-z]", tok):
            name = tok.lstrip("\\")
            if self.peek() == "_":
                self.take()
                sub = self.name_group() if self.peek() == "{" else self.take()
                name = f"{name}_{sub}"
            return self.symbol(name)
        raise TexUnreadable(f"tex: token `{tok}` is outside the fragment read by the checker")


def read_cell(cell: str, symbol: Callable[[str], sp.Expr]) -> sp.Expr:
    toks = tokenize(cell)
    if not toks:
        return sp.Integer(0)
    p = Parser(toks, symbol)
    v = p.expr()
    if p.peek() is not None:
        raise TexUnreadable(f"tex: trailing `{p.peek()}` in cell `{cell.strip()}`")
    return v


MATRIX = re.compile(r"([^\n=]*?)=\s*([^\n=]*?)\\begin\{bmatrix\}(.*?)\\end\{bmatrix\}", re.S)


def documented_matrices(doc: str) -> List[Tuple[str, str, str]]:
    """[(left-hand side text, prefactor text, body)]"""
    return [(m.group(1).strip(), m.group(2).strip(), m.group(3)) for m in MATRIX.finditer(doc)]


def read_matrix(prefactor: str, body: str, symbol: Callable[[str], sp.Expr]) -> sp.Matrix:
    rows = [r for r in re.split(r"\\\\", body) if r.strip() != ""]
    cells = [[read_cell(c, symbol) for c in r.split("&")] for r in rows]
    w = max(len(r) for r in cells)
    if any(len(r) != w for r in cells):
        raise TexUnreadable("tex: ragged matrix")
    m = sp.Matrix(cells)
    if prefactor:
        m = read_cell(prefactor, symbol) * m
    return m
