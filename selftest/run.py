#!/usr/local/bin/python3-vt
"""Self-validation of the checkers: apply each variant (a small source edit) to a scratch copy of
/repo's analysed sources, run the property's check on the copy, compare with the expectation.

  breaking variant    → the check must exit 1 and name the expected rule (and instance substring)
  preserving variant  → the check must exit 0 with no new violation

Scratch copies live under $TMPDIR/pqstatic-selftest-<pid>/ and are removed immediately.
Usage: selftest/run.py [C12 C20 ...] [--jobs 16] [--json out.json] [-v]
"""

import argparse
import json
import os
import shutil
import subprocess
import sys
import tempfile
from concurrent.futures import ThreadPoolExecutor

HERE = os.path.dirname(os.path.abspath(__file__))
VERIF = os.path.dirname(HERE)
sys.path.insert(0, VERIF)
sys.path.insert(0, HERE)

REPO = os.environ.get("PQSTATIC_REPO", "/repo")
COPY = ["piquasso", "src"]


def make_copy(dst: str) -> None:
    os.makedirs(dst)
    for d in COPY:
        shutil.copytree(
            os.path.join(REPO, d), os.path.join(dst, d),
            ignore=shutil.ignore_patterns("__pycache__", "*.so", "*.pyc", "build"),
        )


def apply_variant(root: str, v: dict) -> None:
    for ed in v["edits"]:
        path = os.path.join(root, ed["file"])
        with open(path) as fh:
            src = fh.read()
        n = src.count(ed["find"])
        want = ed.get("count", 1)
        if n != want:
            raise RuntimeError(f"variant {v['id']}: `find` occurs {n} times in {ed['file']} (expected {want})")
        src = src.replace(ed["find"], ed["replace"])
        with open(path, "w") as fh:
            fh.write(src)
        if path.endswith(".py"):
            compile(src, path, "exec")  # the variant must still be valid Python


def keys_of(out: str) -> set:
    ks = set()
    for line in out.splitlines():
        line = line.strip()
        if line.startswith("instance: "):
            ks.add(line[len("instance: "):])
        elif line.startswith("KNOWN-FINDING: "):
            parts = line.split()
            if len(parts) >= 3:
                ks.add(parts[2])
    return ks


BASELINE = {}


def baseline(prop: str, tier: str) -> set:
    k = (prop, tier)
    if k not in BASELINE:
        rd = tempfile.mkdtemp(prefix="pqstatic-base-")
        p = subprocess.run([os.path.join(VERIF, "check"), prop, "--tier", tier, "--repo", REPO, "--no-evidence",
                            "--replay-dir", rd], capture_output=True, text=True, timeout=900)
        shutil.rmtree(rd, ignore_errors=True)
        BASELINE[k] = (keys_of(p.stdout), p.returncode, "ANALYSIS-ERROR" in p.stdout)
    return BASELINE[k]


def run_variant(v: dict, base: str, verbose: bool) -> dict:
    root = tempfile.mkdtemp(prefix=f"v-{v['id']}-", dir=base)
    os.rmdir(root)
    try:
        make_copy(root)
        apply_variant(root, v)
        p = subprocess.run(
            [os.path.join(VERIF, "check"), v["property"], "--tier", v.get("tier", "quick"), "--repo", root,
             "--no-evidence", "--replay-dir", os.path.join(root, "_replays")],
            capture_output=True, text=True, timeout=600,
        )
        out = p.stdout
        code = p.returncode
        exp = v["expect"]
        ok = False
        why = ""
        bkeys, bcode, berr = baseline(v["property"], v.get("tier", "quick"))
        new = keys_of(out) - bkeys
        if isinstance(exp, dict) and "exit" in exp and "rule" not in exp:
            # an edit the check cannot decide: it must say so (exit 2, ANALYSIS-ERROR) and must not claim a violation
            ok = code == exp["exit"] and not new and "VIOLATION property=" not in out
            why = "" if ok else f"expected exit {exp['exit']} without a new report, got exit {code} new={sorted(new)[:3]}"
        elif exp == "silent":
            ok = not new and "ANALYSIS-ERROR" not in out and code == bcode
            why = "" if ok else f"expected no new report, got exit {code} (baseline {bcode}) new={sorted(new)[:3]}"
        else:
            # expect = {"rule": "C12a", "contains": "substring of the new report's key/message"}
            fired = code == 1 and bool(new)
            hit = [k for k in new if k.startswith(exp.get("rule", ""))]
            ok = fired and bool(hit) and (exp.get("contains", "") in " ".join(hit) or any(
                exp.get("contains", "") in l for l in out.splitlines() if "[" + exp.get("rule", "") in l))
            why = "" if ok else f"expected rule {exp.get('rule')} / `{exp.get('contains','')}`; exit {code}; new={sorted(new)[:3]}"
        res = {"id": v["id"], "property": v["property"], "kind": "preserving" if exp == "silent" else ("undecidable" if isinstance(exp, dict) and "rule" not in exp else "breaking"),
               "ok": ok, "exit": code, "why": why}
        if verbose or not ok:
            res["output"] = out[-3000:] + p.stderr[-2000:]
        return res
    except Exception as e:  # noqa: BLE001
        return {"id": v["id"], "property": v["property"], "ok": False, "exit": None, "why": f"harness: {e}",
                "kind": "preserving" if v.get("expect") == "silent" else "breaking"}
    finally:
        shutil.rmtree(root, ignore_errors=True)


def main() -> int:
    ap = argparse.ArgumentParser()
    ap.add_argument("props", nargs="*")
    ap.add_argument("--jobs", type=int, default=min(16, os.cpu_count() or 4))
    ap.add_argument("--json", default=None)
    ap.add_argument("--only", default=None, help="run only the variant with this id")
    ap.add_argument("-v", action="store_true")
    args = ap.parse_args()
    from variants import VARIANTS  # noqa: E402

    sel = [v for v in VARIANTS if (not args.props or v["property"] in args.props) and (not args.only or v["id"] == args.only)]
    ids = [v["id"] for v in sel]
    assert len(ids) == len(set(ids)), "duplicate variant ids"
    base = tempfile.mkdtemp(prefix=f"pqstatic-selftest-{os.getpid()}-")
    try:
        with ThreadPoolExecutor(max_workers=args.jobs) as ex:
            results = list(ex.map(lambda v: run_variant(v, base, args.v), sel))
    finally:
        shutil.rmtree(base, ignore_errors=True)
    bad = [r for r in results if not r["ok"]]
    for r in results:
        print(f"{'ok  ' if r['ok'] else 'FAIL'} {r['property']} {r['kind']:10s} {r['id']} {r['why']}")
        if (args.v or not r["ok"]) and r.get("output"):
            print("    | " + "\n    | ".join(r["output"].strip().splitlines()[-25:]))
    print(f"selftest: {len(results) - len(bad)}/{len(results)} variants behaved as expected")
    if args.json:
        with open(args.json, "w") as fh:
            json.dump(results, fh, indent=1)
    return 0 if not bad else 1


if __name__ == "__main__":
    sys.exit(main())
