#!/usr/local/bin/python3-vt
"""Whole-repository behaviour-preserving transformations (see tools/alpha_rename.py, tools/stress_refactor.py) as a library:
run_stress(prop, repo) applies each of them to a scratch copy of the analysed sources and reports whether the check's verdict
(exit code and set of reported violations) is the same as on the untransformed sources."""
import ast
import os
import shutil
import subprocess
import sys
import tempfile

HERE = os.path.dirname(os.path.abspath(__file__))
VERIF = os.path.dirname(HERE)
sys.path.insert(0, os.path.join(VERIF, "tools"))
sys.path.insert(0, HERE)


_IMPORTED: dict = {}


def _transform(root: str, mode: str) -> int:
    import alpha_rename
    import stress_refactor
    n = 0
    for dp, _, fs in os.walk(os.path.join(root, "piquasso")):
        for f in fs:
            if not f.endswith(".py"):
                continue
            p = os.path.join(dp, f)
            src = open(p).read()
            tree = ast.parse(src)
            if mode == "alpha":
                tree = alpha_rename.Renamer(src, p).visit(tree)
            elif mode == "nest":
                tree = stress_refactor.Nest().visit(tree)
            elif mode == "retvar":
                tree = stress_refactor.RetVar().visit(tree)
            elif mode == "shuffle":
                tree = stress_refactor.shuffle(tree)
            elif mode == "invert":
                tree = stress_refactor.Invert().visit(tree)
            elif mode == "kw":
                tree = stress_refactor.Keywords(tree).visit(tree)
            elif mode == "mulswap":
                tree = stress_refactor.MulSwap().visit(tree)
            elif mode == "argtemp":
                tree = stress_refactor.ArgTemp().visit(tree)
            elif mode == "unelse":
                tree = stress_refactor.UnElse().visit(tree)
            elif mode == "unpack":
                tree = stress_refactor.Unpack().visit(tree)
            elif mode == "paramren":
                tree = stress_refactor.ParamRename(tree, _IMPORTED.get(root) or _IMPORTED.setdefault(root, stress_refactor._imported_private_names(os.path.join(root, "piquasso")))).visit(tree)
            out = ast.unparse(ast.fix_missing_locations(tree))
            compile(out, p, "exec")
            open(p, "w").write(out)
            n += 1
    return n


def run_stress(prop: str, repo: str, modes=("alpha", "nest", "retvar", "shuffle", "invert", "kw", "mulswap", "argtemp", "unelse", "unpack", "paramren")):
    from run import COPY  # noqa: F401
    results = []
    base = subprocess.run([os.path.join(VERIF, "check"), prop, "--repo", repo, "--no-evidence", "--replay-dir", tempfile.mkdtemp(prefix="pq-r-")],
                          capture_output=True, text=True)
    base_v = sorted(l for l in base.stdout.splitlines() if l.strip().startswith("instance: "))
    for mode in modes:
        root = tempfile.mkdtemp(prefix=f"pqstatic-stress-{mode}-")
        os.rmdir(root)
        try:
            os.makedirs(root)
            for d in ("piquasso", "src"):
                shutil.copytree(os.path.join(repo, d), os.path.join(root, d), ignore=shutil.ignore_patterns("__pycache__", "*.so", "*.pyc", "build"))
            n = _transform(root, mode)
            r = subprocess.run([os.path.join(VERIF, "check"), prop, "--repo", root, "--no-evidence", "--replay-dir", os.path.join(root, "_r")],
                               capture_output=True, text=True)
            n_viol = sum(1 for l in r.stdout.splitlines() if l.startswith("VIOLATION property="))
            b_viol = sum(1 for l in base.stdout.splitlines() if l.startswith("VIOLATION property="))
            ok = r.returncode == base.returncode and n_viol == b_viol
            results.append({"transformation": mode, "files": n, "verdict_unchanged": ok, "exit": r.returncode, "baseline_exit": base.returncode,
                            "errors": [l[:200] for l in r.stdout.splitlines() if l.startswith("ANALYSIS-ERROR")][:3]})
        finally:
            shutil.rmtree(root, ignore_errors=True)
    return results


if __name__ == "__main__":
    import json
    print(json.dumps(run_stress(sys.argv[1], sys.argv[2] if len(sys.argv) > 2 else "/repo"), indent=1))
