"""Variants for the checker self-test.  Each is a small, still-compiling edit of /repo's sources.

expect = "silent" (behaviour-preserving edit: the check must stay quiet)
       | {"rule": ..., "contains": ...} (breaking edit: the check must report that rule / instance)
"""

EXPR = "piquasso/core/_expressions.py"
INSTR = "piquasso/api/instruction.py"

VARIANTS = []


def V(id, prop, expect, *edits, tier="quick"):
    VARIANTS.append({
        "id": id, "property": prop, "expect": expect, "tier": tier,
        "edits": [dict(file=f, find=a, replace=b, **(dict(count=c[0]) if c else {})) for (f, a, b, *c) in edits],
    })


JAXC = "piquasso/_simulators/connectors/jax_/connector.py"
V("c09e-jax-left-polar-by-plain-transpose", "C09", {"rule": "C09e", "contains": "JaxConnector.polar|side=left"},
  (JAXC, "        return self._scipy.linalg.polar(a, side, method=\"svd\")",
   "        if side == \"left\":\n            unitary, posdef = self._scipy.linalg.polar(a.T, side=\"right\")\n            return unitary.T, posdef\n        return self._scipy.linalg.polar(a, side=\"right\")"))
V("c09e-jax-left-polar-by-adjoint", "C09", "silent",
  (JAXC, "        return self._scipy.linalg.polar(a, side, method=\"svd\")",
   "        if side == \"left\":\n            unitary, posdef = self._scipy.linalg.polar(a.conj().T, side=\"right\")\n            return unitary.conj().T, posdef\n        return self._scipy.linalg.polar(a, side=\"right\")"))
V("c09e-jax-polar-sides-swapped", "C09", {"rule": "C09e", "contains": "JaxConnector.polar"},
  (JAXC, "        return self._scipy.linalg.polar(a, side, method=\"svd\")",
   "        return self._scipy.linalg.polar(a, \"left\" if side == \"right\" else \"right\", method=\"svd\")"))
GSTEPS = "piquasso/_simulators/gaussian/simulation_steps.py"
V("c09f-stale-alias-read-after-assign", "C09", {"rule": "C09f", "contains": "_apply_passive_linear_to_auxiliary_modes"},
  (GSTEPS, "    auxiliary_index = get_auxiliary_operator_index(modes, auxiliary_modes)\n\n    state._C = connector.assign(",
   "    auxiliary_index = get_auxiliary_operator_index(modes, auxiliary_modes)\n    C = state._C\n\n    state._C = connector.assign(", 1),
  (GSTEPS, "state._C, assign_index, np.conj(state._C[modes, :]).transpose()", "state._C, assign_index, np.conj(C[modes, :]).transpose()", 1))
V("c09f-result-under-new-name-old-not-read", "C09", "silent",
  (GSTEPS, "    state._G = connector.assign(state._G, assign_index, state._G[modes, :].transpose())",
   "    rows_done = state._G\n    mirrored = connector.assign(rows_done, assign_index, rows_done[modes, :].transpose())\n    state._G = mirrored", 2))
V("c09f-shape-read-after-assign", "C09", "silent",
  (GSTEPS, "    auxiliary_index = get_auxiliary_operator_index(modes, auxiliary_modes)\n\n    state._C = connector.assign(",
   "    auxiliary_index = get_auxiliary_operator_index(modes, auxiliary_modes)\n    C = state._C\n\n    state._C = connector.assign(", 1),
  (GSTEPS, "    assign_index = np.ix_(np.arange(state.d), np.array(modes))", "    assign_index = np.ix_(np.arange(state._C.shape[0]), np.array(modes))", 2))
DRE = "piquasso/dual_rail_encoding.py"
V("c19d-qubit-register-local-index", "C19", {"rule": "C19d", "contains": "register-local"},
  (DRE, "qubit_indices = [qc.find_bit(q).index for q in instr_qiskit.qubits]", "qubit_indices = [qubit._index for qubit in instr_qiskit.qubits]"))
V("c19d-clbit-register-local-index", "C19", {"rule": "C19d", "contains": "register-local"},
  (DRE, "_get_condition_function(qc.find_bit(cond[0]).index, cond[1])", "_get_condition_function(cond[0]._index, cond[1])"))
V("c19d-find-bit-through-local", "C19", "silent",
  (DRE, "qubit_indices = [qc.find_bit(q).index for q in instr_qiskit.qubits]",
   "locations = [qc.find_bit(q) for q in instr_qiskit.qubits]\n        qubit_indices = [location.index for location in locations]"))
PREP = "piquasso/instructions/preparations.py"
V("c18f-raw-get-unweighted", "C18", {"rule": "C18f", "contains": "NumberState.__add__"},
  (PREP, "                    + other_amplitude_map[self.params[\"occupation_numbers\"]]\n",
   "                    + other.params[\"fock_amplitude_map\"].get(self.params[\"occupation_numbers\"], 0.0)\n", 1))
V("c18f-raw-get-weighted", "C18", "silent",
  (PREP, "                    + other_amplitude_map[self.params[\"occupation_numbers\"]]\n",
   "                    + other.params[\"fock_amplitude_map\"].get(self.params[\"occupation_numbers\"], 0.0) * other.params[\"coefficient\"]\n", 1))
SIMPY = "piquasso/api/simulator.py"
V("c16b-del-in-reversed-loop", "C16", {"rule": "C16b", "contains": "_delete_modes_from_active"},
  (SIMPY, "        return tuple(\n            mode\n            for mode in active_modes\n            if mode not in Simulator._remap_modes_inverse(active_modes, modes)\n        )",
   "        remaining_modes = list(active_modes)\n        for position in reversed(modes):\n            del remaining_modes[position]\n        return tuple(remaining_modes)"))
V("c16b-del-in-sorted-descending-loop", "C16", "silent",
  (SIMPY, "        return tuple(\n            mode\n            for mode in active_modes\n            if mode not in Simulator._remap_modes_inverse(active_modes, modes)\n        )",
   "        remaining_modes = list(active_modes)\n        for position in sorted(modes, reverse=True):\n            del remaining_modes[position]\n        return tuple(remaining_modes)"))
VALID = "piquasso/_math/validations.py"
V("c17a-consecutive-by-span-only", "C17", {"rule": "C17a", "contains": "are_modes_consecutive"},
  (VALID, "    expected = np.arange(modes[0], modes[-1] + 1)\n\n    return len(modes) == len(expected) and bool(np.all(modes == expected))",
   "    return int(modes[-1]) - int(modes[0]) + 1 == len(modes)"))
V("c17a-consecutive-by-differences", "C17", "silent",
  (VALID, "    expected = np.arange(modes[0], modes[-1] + 1)\n\n    return len(modes) == len(expected) and bool(np.all(modes == expected))",
   "    return all(b - a == 1 for a, b in zip(modes, modes[1:]))"))
V("c11h-module-cache-key-omits-input", "C11", {"rule": "C11h", "contains": "module cache"},
  (GSTEPS, "def graph(state: GaussianState, instruction: Instruction, shots: int) -> List[Branch]:", "_graph_cache: dict = {}\n\n\ndef graph(state: GaussianState, instruction: Instruction, shots: int) -> List[Branch]:"),
  (GSTEPS, "    squeezings, interferometer = decompose_adjacency_matrix_into_circuit(\n        adjacency_matrix=instruction._params[\"adjacency_matrix\"],\n        mean_photon_number=instruction._params[\"mean_photon_number\"],\n        connector=state._connector,\n    )\n", "    adjacency_matrix = np.asarray(instruction._params[\"adjacency_matrix\"])\n    key = (adjacency_matrix.shape, adjacency_matrix.tobytes())\n    if key not in _graph_cache:\n        _graph_cache[key] = decompose_adjacency_matrix_into_circuit(\n            adjacency_matrix=adjacency_matrix,\n            mean_photon_number=instruction._params[\"mean_photon_number\"],\n            connector=state._connector,\n        )\n    squeezings, interferometer = _graph_cache[key]\n"))
V("c11h-module-cache-key-complete", "C11", "silent",
  (GSTEPS, "def graph(state: GaussianState, instruction: Instruction, shots: int) -> List[Branch]:", "_graph_cache: dict = {}\n\n\ndef graph(state: GaussianState, instruction: Instruction, shots: int) -> List[Branch]:"),
  (GSTEPS, "    squeezings, interferometer = decompose_adjacency_matrix_into_circuit(\n        adjacency_matrix=instruction._params[\"adjacency_matrix\"],\n        mean_photon_number=instruction._params[\"mean_photon_number\"],\n        connector=state._connector,\n    )\n", "    adjacency_matrix = np.asarray(instruction._params[\"adjacency_matrix\"])\n    key = (adjacency_matrix.shape, adjacency_matrix.tobytes(), instruction._params[\"mean_photon_number\"], type(state._connector))\n    if key not in _graph_cache:\n        _graph_cache[key] = decompose_adjacency_matrix_into_circuit(\n            adjacency_matrix=adjacency_matrix,\n            mean_photon_number=instruction._params[\"mean_photon_number\"],\n            connector=state._connector,\n        )\n    squeezings, interferometer = _graph_cache[key]\n"))
V("c16e-double-relabelling", "C16", {"rule": "C16e", "contains": "_generate_threshold_samples_using_torontonian"},
  (GSTEPS, "    modes = instruction.modes\n\n    @lru_cache(state._config.cache_size)\n    def get_probability(", "    modes = instruction.modes\n    measured_state = state.reduced(modes)\n\n    @lru_cache(state._config.cache_size)\n    def get_probability("),
  (GSTEPS, "        reduced_state = state.reduced(subspace_modes)\n\n        if not is_displaced:\n            return calculate_click_probability_nondisplaced(", "        reduced_state = measured_state.reduced(subspace_modes)\n\n        if not is_displaced:\n            return calculate_click_probability_nondisplaced("))
V("c16e-reduce-once-then-positions", "C16", "silent",
  (GSTEPS, "    modes = instruction.modes\n\n    @lru_cache(state._config.cache_size)\n    def get_probability(", "    modes = instruction.modes\n    measured_state = state.reduced(modes)\n\n    @lru_cache(state._config.cache_size)\n    def get_probability("),
  (GSTEPS, "        reduced_state = state.reduced(subspace_modes)\n\n        if not is_displaced:\n            return calculate_click_probability_nondisplaced(", "        reduced_state = measured_state.reduced(subspace_modes)\n\n        if not is_displaced:\n            return calculate_click_probability_nondisplaced("),
  (GSTEPS, "            subspace_modes = tuple(modes[:mode_index])", "            subspace_modes = tuple(range(mode_index))"))
LHAF = "piquasso/_math/hafnian/loop_hafnian.py"
PHAF = "piquasso/_math/hafnian/plain_hafnian.py"
V("c04f-loop-hafnian-zero-norm-unguarded", "C04", {"rule": "C04f", "contains": "_scale_matrix_and_diagonal divides"},
  (LHAF, "    if scale_factor == 0.0:\n        return 1.0\n\n", ""))
V("c04f-plain-hafnian-zero-norm-unguarded", "C04", {"rule": "C04f", "contains": "hafnian_with_reduction|division"},
  (PHAF, "        if scale_factor == 0.0:\n            scale_factor = 1.0\n", "", 2))
V("c04f-guard-by-nonpositive-test", "C04", "silent",
  (LHAF, "    if scale_factor == 0.0:\n        return 1.0\n\n", "    if scale_factor <= 0.0:\n        return 1.0\n\n"))
V("c04g-occupation-entry-overwritten", "C04", {"rule": "C04g", "contains": "_prepare_data"},
  (LHAF, "    occupation_numbers_orig_copy = np.copy(occupation_numbers_orig)\n", "    occupation_numbers_orig_copy = np.copy(occupation_numbers_orig)\n    occupation_numbers_orig_copy[-1] = 0\n"))
V("c04g-occupation-entry-incremented-explicitly", "C04", "silent",
  (PHAF, "        new_occupation_numbers[-1] += 1\n", "        new_occupation_numbers[-1] = new_occupation_numbers[-1] + 1\n"))
COMBI = "piquasso/_math/combinatorics.py"
V("c06e-divide-once-at-the-end", "C06", {"rule": "C06e", "contains": "arr_comb"},
  (COMBI, "    for i in range(k):\n        prod = np.where(i < reduced_k, prod * (n - i) // (i + 1), prod)\n\n    return np.where(n < k, 0, prod)",
   "    denominator = 1\n\n    for i in range(k):\n        prod *= n - i\n        denominator *= i + 1\n\n    return prod // denominator"))
V("c06e-vectorised-without-symmetric-reduction", "C06", {"rule": "C06e", "contains": "symmetric reduction"},
  (COMBI, "    for i in range(k):\n        prod = np.where(i < reduced_k, prod * (n - i) // (i + 1), prod)\n\n    return np.where(n < k, 0, prod)",
   "    for i in range(k):\n        prod *= n - i\n        prod = prod // (i + 1)\n\n    return prod"))
V("c06e-scalar-without-symmetric-reduction", "C06", {"rule": "C06e", "contains": "symmetric reduction"},
  (COMBI, "    k = min(k, n - k)\n\n", ""))
V("c06e-one-statement-step", "C06", "silent",
  (COMBI, "        prod *= n - i\n        prod //= i + 1\n", "        prod = prod * (n - i) // (i + 1)\n"))
V("c06e-scalar-wrong-divisor", "C06", {"rule": "C06e", "contains": "comb"},
  (COMBI, "        prod *= n - i\n        prod //= i + 1\n", "        prod *= n - i\n        prod //= i + 2\n"))
GSTATE = "piquasso/_simulators/gaussian/state.py"
V("c14d-string-positions-gather-map", "C14", {"rule": "C14d", "contains": "positions-of-other-ordering"},
  (GSTATE, "        first_order_moments = self.xxpp_mean_vector\n        cov_xxpp = self.xxpp_covariance_matrix\n\n        second_order_moments = cov_xxpp / 2 + 0.5j * hbar * xp_symplectic_form(d)\n\n        return self._string_moment(first_order_moments, second_order_moments, string)", "        first_order_moments = self.xpxp_mean_vector\n        cov_xpxp = self.xpxp_covariance_matrix\n\n        second_order_moments = cov_xpxp / 2 + 0.5j * hbar * symplectic_form(d)\n\n        index_map = xxpp_to_xpxp_indices(d)\n        xpxp_string = [index_map[index] for index in string]\n\n        return self._string_moment(first_order_moments, second_order_moments, xpxp_string)"))
V("c14d-string-positions-inverse-map", "C14", "silent",
  (GSTATE, "        first_order_moments = self.xxpp_mean_vector\n        cov_xxpp = self.xxpp_covariance_matrix\n\n        second_order_moments = cov_xxpp / 2 + 0.5j * hbar * xp_symplectic_form(d)\n\n        return self._string_moment(first_order_moments, second_order_moments, string)", "        first_order_moments = self.xpxp_mean_vector\n        cov_xpxp = self.xpxp_covariance_matrix\n\n        second_order_moments = cov_xpxp / 2 + 0.5j * hbar * symplectic_form(d)\n\n        index_map = xpxp_to_xxpp_indices(d)\n        xpxp_string = [index_map[index] for index in string]\n\n        return self._string_moment(first_order_moments, second_order_moments, xpxp_string)"))
SSTEPS = "piquasso/_simulators/simulation_steps.py"
V("c02f-sampler-counts-from-columns", "C02", {"rule": "C02f", "contains": "_sample_detected_outcomes"},
  (SSTEPS, "    number_of_detectable_counts = detector_efficiency_matrix.shape[0]\n\n    detected_counts_by_mode = [", "    number_of_detectable_counts = detector_efficiency_matrix.shape[1]\n\n    detected_counts_by_mode = ["))
V("c02f-actual-bound-from-rows", "C02", {"rule": "C02f", "contains": "_get_probabilities_by_mode"},
  (SSTEPS, "    number_of_actual_counts = detector_efficiency_matrix.shape[1]", "    number_of_actual_counts = detector_efficiency_matrix.shape[0]"))
V("c02f-sizes-by-unpacking", "C02", "silent",
  (SSTEPS, "    number_of_detectable_counts = detector_efficiency_matrix.shape[0]\n\n    detected_counts_by_mode = [", "    n_detectable, _n_actual = detector_efficiency_matrix.shape\n    number_of_detectable_counts = n_detectable\n\n    detected_counts_by_mode = ["))
V("c04f-division-inside-nonzero-branch", "C04", "silent",
  (PHAF, "        if scale_factor == 0.0:\n            scale_factor = 1.0\n        matrix = matrix_reduced / scale_factor\n",
   "        if scale_factor != 0.0:\n            matrix = matrix_reduced / scale_factor\n        else:\n            matrix = matrix_reduced\n            scale_factor = 1.0\n", 2))
MFOCK = "piquasso/_math/fock.py"
V("c16b-insert-sorted-modes-unsorted-counts", "C16", {"rule": "C16b", "contains": "get_postselected_fock_basis"},
  (MFOCK, "    full_basis = np.zeros((len(active_basis), d), dtype=int)\n\n    active_modes = np.delete(np.arange(d), postselected_modes)\n\n    full_basis[:, active_modes] = active_basis\n    full_basis[:, postselected_modes] = np.asarray(\n        postselected_photons,\n        dtype=int,\n    )\n\n    return full_basis\n", "    positions = np.sort(postselected_modes) - np.arange(len(postselected_modes))\n\n    return np.insert(active_basis.astype(int), positions, np.asarray(postselected_photons, dtype=int), axis=1)\n"))
V("c16b-insert-jointly-sorted", "C16", "silent",
  (MFOCK, "    full_basis = np.zeros((len(active_basis), d), dtype=int)\n\n    active_modes = np.delete(np.arange(d), postselected_modes)\n\n    full_basis[:, active_modes] = active_basis\n    full_basis[:, postselected_modes] = np.asarray(\n        postselected_photons,\n        dtype=int,\n    )\n\n    return full_basis\n", "    order = np.argsort(postselected_modes)\n    positions = np.asarray(postselected_modes)[order] - np.arange(len(postselected_modes))\n\n    return np.insert(active_basis.astype(int), positions, np.asarray(postselected_photons, dtype=int)[order], axis=1)\n"))
GATESPY = "piquasso/instructions/gates.py"
V("c13i-one-bogoliubov-condition-only", "C13", {"rule": "C13i", "contains": "GaussianTransform._validate"},
  (GATESPY, "        if not is_symplectic(\n            np.block([[passive, active], [active.conj(), passive.conj()]]),\n            form_func=complex_symplectic_form,\n        ):", "        if not (\n            np.shape(passive) == np.shape(active)\n            and np.allclose(passive @ passive.conj().T - active @ active.conj().T, np.identity(len(passive)))\n        ):"))
V("c13i-both-block-identities", "C13", "silent",
  (GATESPY, "        if not is_symplectic(\n            np.block([[passive, active], [active.conj(), passive.conj()]]),\n            form_func=complex_symplectic_form,\n        ):", "        if not (\n            np.shape(passive) == np.shape(active)\n            and np.allclose(passive @ passive.conj().T - active @ active.conj().T, np.identity(len(passive)))\n            and np.allclose(passive @ active.T, active @ passive.T)\n        ):"))
V("c13i-block-matrix-misassembled", "C13", {"rule": "C13i", "contains": "GaussianTransform._validate"},
  (GATESPY, "np.block([[passive, active], [active.conj(), passive.conj()]])", "np.block([[passive, active], [active, passive]])"))
V("c13h-last-listed-mode-as-largest", "C13", {"rule": "C13h", "contains": "_infer_number_of_modes"},
  (SIMPY, "        if modes and (not number_of_modes or max(modes) >= number_of_modes):\n            number_of_modes = max(modes) + 1", "        if modes and (not number_of_modes or modes[-1] >= number_of_modes):\n            number_of_modes = modes[-1] + 1"))
V("c13h-max-in-one-expression", "C13", "silent",
  (SIMPY, "    number_of_modes = None\n\n    for instruction in instructions:\n        modes = getattr(instruction, \"modes\", None)\n        if modes and (not number_of_modes or max(modes) >= number_of_modes):\n            number_of_modes = max(modes) + 1\n\n    return number_of_modes",
   "    largest = [max(instruction.modes) for instruction in instructions if getattr(instruction, \"modes\", None)]\n\n    return max(largest) + 1 if largest else None"))
V("c07e-common-subexpression-loses-transpose", "C07", {"rule": "C07e", "contains": "_apply_linear_to_C_and_G"},
  (GSTEPS, "    original_G = state._G[index]\n\n    state._G = connector.assign(", "    original_G = state._G[index]\n\n    antinormal_C = original_C + np.identity(len(modes))\n\n    state._G = connector.assign("),
  (GSTEPS, "        + P @ (original_C.transpose() + np.identity(len(modes))) @ A.transpose()", "        + P @ antinormal_C @ A.transpose()"),
  (GSTEPS, "        + A.conjugate()\n        @ (original_C.transpose() + np.identity(len(modes)))\n        @ A.transpose()", "        + A.conjugate() @ antinormal_C @ A.transpose()"))
V("c07e-common-subexpression-kept-right", "C07", "silent",
  (GSTEPS, "    original_G = state._G[index]\n\n    state._G = connector.assign(", "    original_G = state._G[index]\n\n    antinormal_C = original_C.transpose() + np.identity(len(modes))\n\n    state._G = connector.assign("),
  (GSTEPS, "        + P @ (original_C.transpose() + np.identity(len(modes))) @ A.transpose()", "        + P @ antinormal_C @ A.transpose()"),
  (GSTEPS, "        + A.conjugate()\n        @ (original_C.transpose() + np.identity(len(modes)))\n        @ A.transpose()", "        + A.conjugate() @ antinormal_C @ A.transpose()"))
FSTEPS = "piquasso/_simulators/fock/simulation_steps.py"
V("c08b-attenuator-mirror-without-conjugate", "C08", {"rule": "C08b", "contains": "mirror-fill-conjugate"},
  (FSTEPS, "    for index, basis in operator_basis(space):\n        coefficient = new_state._density_matrix[index]", "    for index, basis in operator_basis(space):\n        if index[0] < index[1]:\n            continue\n\n        coefficient = new_state._density_matrix[index]"), (FSTEPS, "            current_index = (current_ket_index, current_bra_index)\n\n            new_density_matrix[current_index] += common_term * (\n                np.tan(theta) ** (2 * k) * np.sqrt(comb(n, k) * comb(m, k))\n            )\n", "            term = common_term * (\n                np.tan(theta) ** (2 * k) * np.sqrt(comb(n, k) * comb(m, k))\n            )\n\n            new_density_matrix[current_ket_index, current_bra_index] += term\n\n            if index[0] != index[1]:\n                new_density_matrix[current_bra_index, current_ket_index] += term\n"))
V("c08b-attenuator-mirror-with-conjugate", "C08", "silent",
  (FSTEPS, "    for index, basis in operator_basis(space):\n        coefficient = new_state._density_matrix[index]", "    for index, basis in operator_basis(space):\n        if index[0] < index[1]:\n            continue\n\n        coefficient = new_state._density_matrix[index]"), (FSTEPS, "            current_index = (current_ket_index, current_bra_index)\n\n            new_density_matrix[current_index] += common_term * (\n                np.tan(theta) ** (2 * k) * np.sqrt(comb(n, k) * comb(m, k))\n            )\n", "            term = common_term * (\n                np.tan(theta) ** (2 * k) * np.sqrt(comb(n, k) * comb(m, k))\n            )\n\n            new_density_matrix[current_ket_index, current_bra_index] += term\n\n            if index[0] != index[1]:\n                new_density_matrix[current_bra_index, current_ket_index] += np.conj(term)\n"))
GRADS = "piquasso/_math/gradients.py"
V("c10a-tanh-through-absolute-value", "C10", {"rule": "C10a", "contains": "create_single_mode_squeezing_gradient"},
  (GRADS, "        tanhr = np.tanh(r)\n", "        tanhr = np.abs(np.exp(1j * phi) * np.tanh(r))\n"))
V("c10a-phase-as-local", "C10", "silent",
  (GRADS, "        row_sqrts = falling_index_sqrts * np.exp(1j * phi)\n        col_sqrts = falling_index_sqrts * np.exp(-1j * phi)\n",
   "        phase = np.exp(1j * phi)\n        row_sqrts = falling_index_sqrts * phase\n        col_sqrts = falling_index_sqrts * np.conj(phase)\n"))
GMAT = "piquasso/_math/gate_matrices.py"
V("c10e-zeroth-power-behind-where", "C10", {"rule": "C10e", "contains": "create_single_mode_displacement_matrix"},
  (GMAT, "    epsilon = 10e-100\n    previous_element = np.power(displacement + epsilon, cutoff_range) * denominator",
   "    previous_element = np.where(cutoff_range == 0, 1.0, np.power(displacement, cutoff_range)) * denominator"))
V("c10e-epsilon-named-differently", "C10", "silent",
  (GMAT, "    epsilon = 10e-100\n    previous_element = np.power(displacement + epsilon, cutoff_range) * denominator",
   "    tiny = 10e-100\n    shifted = displacement + tiny\n    previous_element = np.power(shifted, cutoff_range) * denominator"))
V("c14-zero-test-of-dimensionful-mean", "C14", {"rule": "C14", "contains": "_is_displaced"},
  (GSTATE, "        return not self._connector.np.allclose(self._m, 0.0)", "        return not self._connector.np.allclose(self.xpxp_mean_vector, 0.0)"))
V("c14-zero-test-of-complex-displacement-local", "C14", "silent",
  (GSTATE, "        return not self._connector.np.allclose(self._m, 0.0)", "        first_moment = self._m\n        return not self._connector.np.allclose(first_moment, 0.0)"))
V("c11h-identity-of-moments-as-cache-key", "C11", {"rule": "C11h", "contains": "identity of in-place"},
  (GSTATE, "    def _is_displaced(self) -> bool:", "    def _cached_calculation_is_current(self, cached_moments) -> bool:\n        return all(cached is current for cached, current in zip(cached_moments, (self._m, self._G, self._C)))\n\n    def _is_displaced(self) -> bool:"))
V("c11h-type-identity-is-not-a-cache-key", "C11", "silent",
  (GSTATE, "    def _is_displaced(self) -> bool:", "    def _same_kind(self, other) -> bool:\n        return type(self) is type(other) and self._m is not None\n\n    def _is_displaced(self) -> bool:"))
TFCONN = "piquasso/_simulators/connectors/tensorflow_/connector.py"
V("c09e-tf-polar-unitary-same-side-for-both", "C09", {"rule": "C09e", "contains": "TensorflowConnector.polar|side=left"},
  (TFCONN, "        if side == \"right\":\n            P = self._tf.linalg.sqrtm(adjoint @ matrix)\n            U = matrix @ self._tf.linalg.inv(P)\n        elif side == \"left\":\n            P = self._tf.linalg.sqrtm(matrix @ adjoint)\n            U = self._tf.linalg.inv(P) @ matrix\n", "        gram = adjoint @ matrix if side == \"right\" else matrix @ adjoint\n\n        P = self._tf.linalg.sqrtm(gram)\n        U = matrix @ self._tf.linalg.inv(P)\n"))
V("c09e-tf-polar-conditional-expressions", "C09", "silent",
  (TFCONN, "        if side == \"right\":\n            P = self._tf.linalg.sqrtm(adjoint @ matrix)\n            U = matrix @ self._tf.linalg.inv(P)\n        elif side == \"left\":\n            P = self._tf.linalg.sqrtm(matrix @ adjoint)\n            U = self._tf.linalg.inv(P) @ matrix\n", "        gram = adjoint @ matrix if side == \"right\" else matrix @ adjoint\n\n        P = self._tf.linalg.sqrtm(gram)\n        U = matrix @ self._tf.linalg.inv(P) if side == \"right\" else self._tf.linalg.inv(P) @ matrix\n"))
CONFIGPY = "piquasso/api/config.py"
V("c11a-generator-reseeded-in-place", "C11", {"rule": "C11a", "contains": "re-seeded in place"},
  (CONFIGPY, "        self.rng = np.random.default_rng(self._seed_sequence)\n        random.seed(self._seed_sequence)",
   "        rng = np.random.default_rng(self._seed_sequence)\n        if getattr(self, \"rng\", None) is None:\n            self.rng = rng\n        else:\n            self.rng.bit_generator.state = rng.bit_generator.state\n        random.seed(self._seed_sequence)"))
V("c11a-generator-replaced-through-local", "C11", "silent",
  (CONFIGPY, "        self.rng = np.random.default_rng(self._seed_sequence)\n        random.seed(self._seed_sequence)",
   "        new_generator = np.random.default_rng(self._seed_sequence)\n        self.rng = new_generator\n        random.seed(self._seed_sequence)"))
V("c07a-quadratic-phase-shear-over-hbar-in-helper", "C07", {"rule": "C07a", "contains": "QuadraticPhase"},
  (GATESPY, "    def _get_passive_block(self, connector, config):\n        s = self._params[\"s\"]\n\n        return connector.np.array([[1 + s / 2 * 1j]], dtype=config.complex_dtype)\n\n    def _get_active_block(self, connector, config):\n        s = self._params[\"s\"]\n\n        return connector.np.array([[s / 2 * 1j]], dtype=config.complex_dtype)\n", "    def _get_shear(self, config):\n        return self._params[\"s\"] / config.hbar\n\n    def _get_passive_block(self, connector, config):\n        shear = self._get_shear(config)\n\n        return connector.np.array([[1 + shear * 1j]], dtype=config.complex_dtype)\n\n    def _get_active_block(self, connector, config):\n        shear = self._get_shear(config)\n\n        return connector.np.array([[shear * 1j]], dtype=config.complex_dtype)\n"))
V("c07a-quadratic-phase-shear-helper", "C07", "silent",
  (GATESPY, "    def _get_passive_block(self, connector, config):\n        s = self._params[\"s\"]\n\n        return connector.np.array([[1 + s / 2 * 1j]], dtype=config.complex_dtype)\n\n    def _get_active_block(self, connector, config):\n        s = self._params[\"s\"]\n\n        return connector.np.array([[s / 2 * 1j]], dtype=config.complex_dtype)\n", "    def _get_shear(self, config):\n        return self._params[\"s\"] / 2\n\n    def _get_passive_block(self, connector, config):\n        shear = self._get_shear(config)\n\n        return connector.np.array([[1 + shear * 1j]], dtype=config.complex_dtype)\n\n    def _get_active_block(self, connector, config):\n        shear = self._get_shear(config)\n\n        return connector.np.array([[shear * 1j]], dtype=config.complex_dtype)\n"))
V("c08c-channel-right-factor-not-transposed", "C08", {"rule": "C08c", "contains": "deterministic_gaussian_channel"},
  (GSTEPS, "    state.xpxp_covariance_matrix = (\n        embedded_X @ covariance_matrix @ embedded_X.T + embedded_Y\n    )", "    state.xpxp_covariance_matrix = (\n        embedded_X @ covariance_matrix @ embedded_X + embedded_Y\n    )"))
V("c08c-channel-congruence-through-local", "C08", "silent",
  (GSTEPS, "    state.xpxp_covariance_matrix = (\n        embedded_X @ covariance_matrix @ embedded_X.T + embedded_Y\n    )", "    transformed = embedded_X @ covariance_matrix @ embedded_X.T\n    state.xpxp_covariance_matrix = transformed + embedded_Y"))
V("c09g-traced-exponent-factors-swapped", "C09", {"rule": "C09g", "contains": "get_phaseshifter_expectation_value"},
  (GSTATE, "            solved = np.linalg.solve(M, mean)\n            exponent = -(np.conj(mean) @ A @ solved)", "            exponent = -(np.conj(mean) @ np.linalg.solve(M, A @ mean))"))
V("c09g-traced-exponent-in-one-expression", "C09", "silent",
  (GSTATE, "            solved = np.linalg.solve(M, mean)\n            exponent = -(np.conj(mean) @ A @ solved)", "            exponent = -(np.conj(mean) @ A @ np.linalg.solve(M, mean))"))
V("c09g-traced-exponent-explicit-inverse", "C09", "silent",
  (GSTATE, "            solved = np.linalg.solve(M, mean)\n            exponent = -(np.conj(mean) @ A @ solved)", "            exponent = -(np.conj(mean) @ A @ np.linalg.inv(M) @ mean)"))
V("c09g-traced-kernel-covariance-on-the-other-side", "C09", {"rule": "C09g", "contains": "get_phaseshifter_expectation_value"},
  (GSTATE, "            M = cov @ A + B\n", "            M = A @ cov + B\n"))
V("c09g-traced-kernel-wrong-diagonal", "C09", {"rule": "C09g", "contains": "get_phaseshifter_expectation_value"},
  (GSTATE, "            B = np.diag(one_plus_z / 2)\n", "            B = np.diag(one_minus_z / 2)\n"))
V("c09g-eager-kernel-sign", "C09", {"rule": "C09g", "contains": "get_phaseshifter_expectation_value"},
  (GSTATE, "        cov_D_phi = (cov + 1j * D_phi) / 2\n", "        cov_D_phi = (cov - 1j * D_phi) / 2\n"))
HOMO = "piquasso/_simulators/fock/pure/simulation_steps/homodyne.py"
V("c02g-hermite-weights-normalised", "C02", "silent",
  (HOMO, "    starting_index = 0\n    for idx in range(cutoff):\n        size = idx + 1\n        hermite_polynomial_coeffs = hermites[starting_index : starting_index + size]\n        starting_index += size\n        for jdx in range(current_d - 1):\n            hermite_vals[idx, jdx] = polyeval(hermite_polynomial_coeffs, positions[jdx])",
   "    normalizer = 1.0\n    starting_index = 0\n    for idx in range(cutoff):\n        if idx > 0:\n            normalizer *= np.sqrt(2.0 * idx)\n        size = idx + 1\n        hermite_polynomial_coeffs = hermites[starting_index : starting_index + size]\n        starting_index += size\n        for jdx in range(current_d - 1):\n            hermite_vals[idx, jdx] = polyeval(hermite_polynomial_coeffs, positions[jdx]) / normalizer"))
V("c20f-index-error-counts-as-not-met", "C20", {"rule": "C20f", "contains": "errors stay errors"},
  (INSTR, "            return self._condition(outcomes)\n        except Exception as e:", "            return self._condition(outcomes)\n        except IndexError:\n            return False\n        except Exception as e:"))
V("c20f-handler-reraises-with-context", "C20", "silent",
  (INSTR, "            return self._condition(outcomes)\n        except Exception as e:", "            return self._condition(outcomes)\n        except IndexError as index_error:\n            raise PiquassoException(f\"The condition refers to an outcome that does not exist: {index_error}\") from index_error\n        except Exception as e:"))
V("c19c-sorted-qubit-indices-through-local", "C19", {"rule": "C19c", "contains": "qubit-operand-order"},
  (DRE, "        if instr_qiskit.name in (\"cz\", \"cx\"):\n            if instr_qiskit.name == \"cz\":", "        if instr_qiskit.name in (\"cz\", \"cx\"):\n            qubit_indices = sorted(qubit_indices)\n            if instr_qiskit.name == \"cz\":"))
V("c19e-condition-reads-last-pair", "C19", {"rule": "C19e", "contains": "_get_condition_function"},
  (DRE, "        two_mode_outcomes = [(outcomes[qubit_index * 2], outcomes[qubit_index * 2 + 1])]", "        two_mode_outcomes = [(outcomes[-2], outcomes[-1])]"))
V("c19e-condition-index-through-local", "C19", "silent",
  (DRE, "        two_mode_outcomes = [(outcomes[qubit_index * 2], outcomes[qubit_index * 2 + 1])]", "        first_rail = 2 * qubit_index\n        two_mode_outcomes = [(outcomes[first_rail], outcomes[first_rail + 1])]"))
PROGPY = "piquasso/api/program.py"
V("c12b-shallow-copy-of-registered-instruction", "C12", {"rule": "C12b", "contains": "mutator-applied-to-copy"},
  (PROGPY, "            instruction_copy = instruction.copy()\n", "            import copy\n            instruction_copy = copy.copy(instruction)\n", 1))
PPROB = "piquasso/_simulators/passive/probabilities.py"
V("c05g-plain-gram-with-v-conj-v", "C05", {"rule": "C05g", "contains": "get_lossy_partially_distinguishable_detection_probabilities"},
  (PPROB, "        G = np.conj(particle_overlap)\n", "        G = particle_overlap\n"))
V("c05g-plain-gram-with-conj-v-v", "C05", "silent",
  (PPROB, "        G = np.conj(particle_overlap)\n", "        G = particle_overlap\n"),
  (PPROB, "        B_detected.append(G * np.outer(vector, np.conj(vector)))", "        B_detected.append(G * np.outer(np.conj(vector), vector))"))
V("c05g-transposed-gram", "C05", "silent",
  (PPROB, "        G = np.conj(particle_overlap)\n", "        G = particle_overlap.T\n"))
V("c16d-store-through-negated-complement-mask", "C16", {"rule": "C16d", "contains": "nb_calculate_index_list_for_appling_interferometer"},
  (FSTEPS, "    all_occupation_numbers = np.zeros(d, dtype=np.int32)\n\n    index_list = []", "    is_auxiliary = np.zeros(d, dtype=np.bool_)\n    is_auxiliary[auxiliary_modes] = True\n    is_active = ~is_auxiliary\n\n    all_occupation_numbers = np.zeros(d, dtype=np.int32)\n\n    index_list = []"),
  (FSTEPS, "                for idx, mode in enumerate(modes):\n                    all_occupation_numbers[mode] = column_vector_on_subspace[idx]\n", "                all_occupation_numbers[is_active] = column_vector_on_subspace\n"))
V("c16d-store-through-complement-mask-only", "C16", "silent",
  (FSTEPS, "    all_occupation_numbers = np.zeros(d, dtype=np.int32)\n\n    index_list = []", "    is_auxiliary = np.zeros(d, dtype=np.bool_)\n    is_auxiliary[auxiliary_modes] = True\n\n    all_occupation_numbers = np.zeros(d, dtype=np.int32)\n\n    index_list = []"),
  (FSTEPS, "            for idx, mode in enumerate(auxiliary_modes):\n                all_occupation_numbers[mode] = auxiliary_occupation_numbers[idx]\n", "            all_occupation_numbers[is_auxiliary] = auxiliary_occupation_numbers\n"))
FGSTEPS = "piquasso/fermionic/gaussian/simulation_steps.py"
FFS = "piquasso/fermionic/fock/simulation_steps.py"
V("c16b-sorted-prefix-of-the-mode-tuple", "C16", {"rule": "C16b", "contains": "_generate_particle_number_samples"},
  (FGSTEPS, "            subspace_modes = tuple(modes[:mode_index])", "            subspace_modes = tuple(sorted(modes[:mode_index]))"))
V("c16d-selection-through-membership-mask", "C16", {"rule": "C16d", "contains": "_get_measurement_probability_map"},
  (FFS, "    measured_modes = list(modes)\n\n    for index, occupation_number in enumerate(fock_space_basis):\n        sample = tuple(occupation_number[measured_modes])",
   "    is_measured = fallback_np.isin(fallback_np.arange(state.d), modes)\n    measured = fock_space_basis[:, is_measured]\n\n    for index, occupation_number in enumerate(fock_space_basis):\n        sample = tuple(measured[index])"))
V("c16d-selection-by-the-mode-list", "C16", "silent",
  (FFS, "    measured_modes = list(modes)\n\n    for index, occupation_number in enumerate(fock_space_basis):\n        sample = tuple(occupation_number[measured_modes])",
   "    measured = fock_space_basis[:, list(modes)]\n\n    for index, occupation_number in enumerate(fock_space_basis):\n        sample = tuple(measured[index])"))
V("c11a-global-seeding-made-conditional", "C11", {"rule": "C11a", "contains": "random.seed on every path"},
  (CONFIGPY, "        self.rng = np.random.default_rng(self._seed_sequence)\n        random.seed(self._seed_sequence)",
   "        self.rng = np.random.default_rng(self._seed_sequence)\n        if self._original_seed_sequence is not None:\n            random.seed(self._seed_sequence)"))
V("c11a-global-seeding-first", "C11", "silent",
  (CONFIGPY, "        self.rng = np.random.default_rng(self._seed_sequence)\n        random.seed(self._seed_sequence)",
   "        random.seed(self._seed_sequence)\n        self.rng = np.random.default_rng(self._seed_sequence)"))
V("c09g-traced-exponent-conjugated-diagonal", "C09", {"rule": "C09g", "contains": "get_phaseshifter_expectation_value"},
  (GSTATE, "            solved = np.linalg.solve(M, mean)\n            exponent = -(np.conj(mean) @ A @ solved)", "            solved = np.linalg.solve(M, mean)\n            exponent = -(np.conj((one_minus_z / 2) * mean) @ solved)"))
V("c09g-traced-kernel-by-broadcasting", "C09", "silent",
  (GSTATE, "            M = cov @ A + B\n", "            M = cov * (one_minus_z / 2)[None, :] + B\n"))
# ------------------------------------------------------------------------------------------- C20
V("c20-sub-add", "C20", {"rule": "C20c", "contains": "Sub"}, (EXPR, "ast.Sub: op.sub", "ast.Sub: op.add"))
V("c20-lt-le", "C20", {"rule": "C20c", "contains": "Lt"}, (EXPR, "ast.Lt: op.lt", "ast.Lt: op.le"))
V("c20-in-contains", "C20", {"rule": "C20c", "contains": "In"},
  (EXPR, "    ast.GtE: op.ge,\n", "    ast.GtE: op.ge,\n    ast.In: op.contains,\n"))
V("c20-allow-call", "C20", {"rule": "C20b", "contains": "Call"}, (EXPR, "        ast.Tuple,\n        # optional", "        ast.Tuple,\n        ast.Call,\n        # optional"))
V("c20-allow-attribute", "C20", {"rule": "C20b", "contains": "Attribute"},
  (EXPR, "ALLOWED.discard(object())", "ALLOWED.discard(object())\nALLOWED.add(ast.Attribute)"))
V("c20-no-validate", "C20", {"rule": "C20a", "contains": "validate"},
  (EXPR, "        self._validate(self._tree)\n", "        pass\n"))
V("c20-validate-only-short", "C20", {"rule": "C20a", "contains": "validate"},
  (EXPR, "        self._validate(self._tree)\n", "        if len(self._src) < 100:\n            self._validate(self._tree)\n"))
V("c20-lazy-when", "C20", {"rule": "C20a", "contains": "when"},
  (INSTR, "            self._condition = _expressions.Expression(condition)",
   "            self._condition = lambda x, c=condition: _expressions.Expression(c)(x)"))
V("c20-name-any", "C20", {"rule": "C20b", "contains": "names"},
  (EXPR, "            if isinstance(n, ast.Name) and n.id != \"x\":\n                raise InvalidExpression(\"Only the variable name 'x' is allowed\")\n", ""))
V("c20-const-str", "C20", {"rule": "C20b", "contains": "str"},
  (EXPR, "n.value, (int, float, bool)", "n.value, (int, float, bool, str)"))
V("c20-deny-after-skip", "C20", {"rule": "C20b", "contains": "default-deny"},
  (EXPR, "            if not isinstance(n, allowed_tuple):  # type: ignore",
   "            if isinstance(n, ast.expr_context):\n                continue\n            if not isinstance(n, allowed_tuple):  # type: ignore"))
V("c20-and-all", "C20", {"rule": "C20e", "contains": "And"},
  (EXPR, "                result = True\n                for v in node.values:\n                    result = self._eval(v, x)\n                    if not result:  # falsy → return immediately\n                        return result\n                return result\n",
   "                return all(self._eval(v, x) for v in node.values)\n"))
V("c20-or-polarity", "C20", {"rule": "C20e", "contains": "Or"},
  (EXPR, "                    if result:  # truthy → return immediately", "                    if not result:"))
V("c20-and-returns-bool", "C20", {"rule": "C20e", "contains": "deciding operand"},
  (EXPR, "                    if not result:  # falsy → return immediately\n                        return result", "                    if not result:\n                        return False"))
V("c20-compare-no-carry", "C20", {"rule": "C20e", "contains": "carried"},
  (EXPR, "                left = right\n", "                pass\n"))
V("c20-compare-swapped", "C20", {"rule": "C20e", "contains": "link is tested"},
  (EXPR, "if not fn(left, right):", "if not fn(right, left):"))
V("c20-binop-swapped", "C20", {"rule": "C20c", "contains": "right-to-left"},
  (EXPR, "return fn(self._eval(node.left, x), self._eval(node.right, x))", "return fn(self._eval(node.right, x), self._eval(node.left, x))"))
V("c20-slice-swapped", "C20", {"rule": "C20e", "contains": "slice"},
  (EXPR, "return seq[slice(start, stop, step)]", "return seq[slice(stop, start, step)]"))
V("c20-no-list-arm", "C20", {"rule": "C20d", "contains": "List"},
  (EXPR, "        if isinstance(node, ast.List):\n            return [self._eval(elt, x) for elt in node.elts]\n", ""))
V("c20-eval-builtin", "C20", {"rule": "C20a", "contains": "builtin-eval"},
  (INSTR, "                resolved_param = unresolved_param(outcomes)", "                resolved_param = eval(str(unresolved_param), {'x': outcomes})"))
V("c20-floordiv-added-right", "C20", "silent",
  (EXPR, "    ast.Div: op.truediv,\n", "    ast.Div: op.truediv,\n    ast.FloorDiv: op.floordiv,\n"))
V("c20-rename-locals", "C20", "silent",
  (EXPR, "                result = True\n                for v in node.values:\n                    result = self._eval(v, x)\n                    if not result:  # falsy → return immediately\n                        return result\n                return result\n",
   "                value = True\n                for operand in node.values:\n                    value = self._eval(operand, x)\n                    if not value:\n                        return value\n                return value\n"))
V("c20-name-check-eq-form", "C20", "silent",
  (EXPR, "if isinstance(n, ast.Name) and n.id != \"x\":", "if isinstance(n, ast.Name) and not n.id == \"x\":"))
V("c20-validate-tree-local", "C20", "silent",
  (EXPR, "            self._tree = ast.parse(self._src, mode=\"eval\")\n", "            tree = ast.parse(self._src, mode=\"eval\")\n"),
  (EXPR, "        self._validate(self._tree)\n", "        self._validate(tree)\n        self._tree = tree\n"))

# ------------------------------------------------------------------------------------------- C13
SIMF = "piquasso/api/simulator.py"
MODE = "piquasso/api/mode.py"
V("c13-skip-validate-with-initial-state", "C13", {"rule": "C13a", "contains": "_validate_instructions"},
  (SIMF, "        self._validate_instructions(instructions, d)\n\n        if initial_state is not None:",
   "        if initial_state is None:\n            self._validate_instructions(instructions, d)\n\n        if initial_state is not None:"))
V("c13-no-initial-state-check", "C13", {"rule": "C13a", "contains": "_validate_initial_state"},
  (SIMF, "            self._validate_initial_state(initial_state, d)\n", ""))
V("c13-shots-bool-float", "C13", {"rule": "C13a", "contains": "shots-test"},
  (SIMF, "is_shots_positive_integer = isinstance(shots, int) and shots > 0", "is_shots_positive_integer = shots > 0"))
V("c13-shots-nonneg", "C13", {"rule": "C13a", "contains": "positive"},
  (SIMF, "isinstance(shots, int) and shots > 0", "isinstance(shots, int) and shots >= 0"))
V("c13-order-not-checked", "C13", {"rule": "C13a", "contains": "_validate_instruction_order"},
  (SIMF, "        self._validate_instruction_order(instructions)\n", "        pass\n"))
V("c13-measurement-end-dropped", "C13", {"rule": "C13a", "contains": "_validate_measurements_at_end"},
  (SIMF, "        self._validate_measurements_at_end(instructions)\n", ""))
V("c13-modes-upper-bound-off", "C13", {"rule": "C13a", "contains": "lt_d"},
  (SIMF, "if mode < 0 or mode >= d:", "if mode < 0 or mode > d:"))
V("c13-validate-after-step", "C13", {"rule": "C13a", "contains": "instruction-validate"},
  (SIMF, "                if self.config.validate:\n                    instruction._validate(self._connector)\n\n                current_shots", "                current_shots"),
  (SIMF, "            for subbranch in subbranches:\n                # NOTE", "            if self.config.validate:\n                instruction._validate(self._connector)\n\n            for subbranch in subbranches:\n                # NOTE"))
V("c13-shots-none-refusal-dropped", "C13", {"rule": "C13a", "contains": "shots-none-refusal"},
  (SIMF, "            and shots is None\n            and not isinstance(", "            and shots is None\n            and isinstance("))
V("c13-q-distinct-dropped", "C13", {"rule": "C13a", "contains": "distinct"},
  (MODE, "if not is_all and not self._is_distinct(modes):", "if False:"))
V("c13-setter-no-validate", "C13", {"rule": "C13a", "contains": "_validate_modes"},
  (INSTR, "        self._validate_modes(value)\n        self._modes = value", "        self._modes = value"))
V("c13-isinstance-dispatch", "C13", {"rule": "C13a", "contains": "exact-class"},
  (SIMF, "if type(instruction) is instruction_class:", "if isinstance(instruction, instruction_class):"))
V("c13-map-entry-removed", "C13", {"rule": "C13b", "contains": "Kerr"},
  ("piquasso/_simulators/fock/pure/simulator.py", "        gates.Kerr: kerr,\n", ""))
V("c13-shots-none-allowed-unregistered", "C13", {"rule": "C13b", "contains": "ThresholdMeasurement"},
  ("piquasso/_simulators/fock/general/simulator.py", "    _measurement_classes_allowed_with_shots_none = (\n        measurements.ParticleNumberMeasurement,",
   "    _measurement_classes_allowed_with_shots_none = (\n        measurements.ParticleNumberMeasurement,\n        measurements.ThresholdMeasurement,"))
V("c13-wrong-param-key", "C13", {"rule": "C13c", "contains": "phi"},
  ("piquasso/_simulators/fock/pure/simulation_steps/__init__.py", "    xi = instruction._get_all_params(state._connector)[\"xi\"]\n    np = state._np", "    xi = instruction._get_all_params(state._connector)[\"phi\"]\n    np = state._np"))
V("c13-step-for-wrong-class", "C13", {"rule": "C13c", "contains": "CubicPhase"},
  ("piquasso/_simulators/fock/pure/simulator.py", "gates.CubicPhase: cubic_phase,", "gates.CubicPhase: kerr,"))
V("c13-params-not-computed", "C13", {"rule": "C13c", "contains": "detection_covariance"},
  ("piquasso/_simulators/gaussian/simulation_steps.py", "    detection_covariance = instruction._get_all_params(state._connector)[\n        \"detection_covariance\"\n    ]", "    detection_covariance = instruction.params[\n        \"detection_covariance\"\n    ]"))
V("c13-shots-numeric-before-none-test", "C13", {"rule": "C13e", "contains": "shots"},
  ("piquasso/_utils.py", "    if shots is None:\n        return {", "    weight = 1 / shots\n    if shots is None:\n        return {"))
V("c13-preserving-rename-validator-local", "C13", "silent",
  (SIMF, "        is_shots_positive_integer = isinstance(shots, int) and shots > 0\n\n        if not is_shots_positive_integer and shots is not None:",
   "        shots_ok = isinstance(shots, int) and shots > 0\n\n        if shots is not None and not shots_ok:"))
V("c13-preserving-extra-map-entry", "C13", "silent",
  ("piquasso/_simulators/fock/pure/simulator.py", "        gates.Squeezing2: linear,\n", "        gates.Squeezing2: linear,\n        gates.ControlledX: linear,\n"))
V("c13-preserving-validate-order-swapped", "C13", "silent",
  (SIMF, "        self._validate_instruction_existence(instructions)\n        self._validate_instruction_modes(instructions, d)\n",
   "        self._validate_instruction_modes(instructions, d)\n        self._validate_instruction_existence(instructions)\n"))

# ------------------------------------------------------------------------------------------- C12
V("c12-no-finally-modes", "C12", {"rule": "C12a", "contains": "instruction.modes"},
  (SIMF, "            finally:\n                # NOTE: The modes of the user's instruction are restored even if the\n                # execution raises.\n                instruction._modes = original_modes\n",
   "            except KeyError:\n                raise\n            instruction._modes = original_modes\n"))
V("c12-restore-only-on-measurement", "C12", {"rule": "C12a", "contains": "instruction.modes"},
  (SIMF, "                instruction._modes = original_modes\n", "                if isinstance(instruction, Measurement):\n                    instruction._modes = original_modes\n"))
V("c12-unresolve-not-in-finally", "C12", {"rule": "C12a", "contains": "_resolve_params"},
  (SIMF, "            finally:\n                # NOTE: The parameters of the user's instruction are restored even if\n                # the validation or the simulation step raises.\n                if not is_instruction_resolved:\n                    instruction._unresolve_params()\n",
   "            except KeyError:\n                raise\n            if not is_instruction_resolved:\n                instruction._unresolve_params()\n"))
V("c12-restore-wrappers", "C12", {"rule": "C12a", "contains": "restores-original"},
  (INSTR, "        self._params.update(self._original_unresolved_params)", "        self._params.update(self._unresolved_params)"))
V("c12-captured-after-overwrite", "C12", {"rule": "C12a", "contains": "instruction.modes"},
  (SIMF, "            original_modes = instruction.modes\n\n            try:\n                if not hasattr(instruction, \"modes\") or instruction.modes is tuple():\n                    instruction.modes = active_modes\n",
   "            try:\n                if not hasattr(instruction, \"modes\") or instruction.modes is tuple():\n                    instruction.modes = active_modes\n                original_modes = instruction.modes\n"))
V("c12-initial-state-not-copied", "C12", {"rule": "C12b", "contains": "initial_state"},
  (SIMF, "            state = initial_state.copy()", "            state = initial_state"))
V("c12-config-not-copied", "C12", {"rule": "C12b", "contains": "config"},
  (SIMF, "self.config = config.copy() if config is not None else self._config_class()", "self.config = config if config is not None else self._config_class()"))
V("c12-state-config-not-copied", "C12", {"rule": "C12b", "contains": "config"},
  ("piquasso/api/state.py", "self._config = config.copy() if config is not None else self._config_class()", "self._config = config or self._config_class()"))
V("c12-nested-program-no-copy", "C12", {"rule": "C12b", "contains": "mutator-applied-to-copy"},
  ("piquasso/api/program.py", "            instruction_copy = instruction.copy()\n", "            instruction_copy = instruction\n"))
V("c12-user-matrix-written", "C12", {"rule": "C12c", "contains": "passive_linear"},
  ("piquasso/_simulators/gaussian/simulation_steps.py", "    _apply_passive_linear(state, passive_block, modes=modes)\n\n    return [Branch(state=state)]\n\n\ndef _apply_passive_linear(",
   "    passive_block[0, 0] = passive_block[0, 0].conjugate()\n    _apply_passive_linear(state, passive_block, modes=modes)\n\n    return [Branch(state=state)]\n\n\ndef _apply_passive_linear("))
V("c12-user-theta-sorted", "C12", {"rule": "C12c", "contains": "snap"},
  ("piquasso/_simulators/fock/pure/simulation_steps/__init__.py", "    theta = np.array(instruction._get_all_params(state._connector)[\"theta\"])", "    theta = instruction._get_all_params(state._connector)[\"theta\"]\n    theta.sort()"))
V("c12-user-param-via-helper", "C12", {"rule": "C12c", "contains": "lossy_interferometer"},
  ("piquasso/_simulators/passive/simulation_steps.py", "    embedded = np.identity(len(state.interferometer), dtype=state._config.complex_dtype)\n", "    embedded = np.identity(len(state.interferometer), dtype=state._config.complex_dtype)\n    matrix *= 1.0\n"))
V("c12-memo-basis-written", "C12", {"rule": "C12d", "contains": "get_fock_space_basis"},
  ("piquasso/_simulators/fock/pure/state.py", "        space = fallback_np.copy(self._space)\n", "        space = self._space\n"))
V("c12-memo-index-list-written", "C12", {"rule": "C12d", "contains": "calculate_state_index_matrix_list"},
  ("piquasso/_simulators/fock/pure/simulation_steps/__init__.py", "        state_index_matrix_list = calculate_state_index_matrix_list(d, cutoff, mode)\n", "        state_index_matrix_list = calculate_state_index_matrix_list(d, cutoff, mode)\n        state_index_matrix_list.reverse()\n"))
V("c12-cxx-permanent-writes-input", "C12", {"rule": "C12e", "contains": "permanent_cpp"},
  ("src/permanent.cpp", "    Matrix<TComplex> mtx2(A.rows, A.cols);\n    for (size_t i = 0; i < A.size(); i++)\n    {\n        mtx2[i] = A[i] * TComplex(2.0, 0.0);\n    }",
   "    Matrix<TComplex> mtx2(A);\n    for (size_t i = 0; i < A.size(); i++)\n    {\n        mtx2[i] = A[i] * TComplex(2.0, 0.0);\n    }"))
V("c12-cxx-torontonian-no-copy", "C12", {"rule": "C12e", "contains": "torontonian_cpp"},
  ("src/torontonian_common.hpp", "    Matrix<TScalar> matrix(dim, dim);\n    for (size_t idx = 0; idx < dim; idx++)", "    Matrix<TScalar> matrix(matrix_in);\n    for (size_t idx = 0; idx < dim; idx++)"))
V("c12-preserving-rename", "C12", "silent",
  (SIMF, "original_modes", "saved_modes", 2))
V("c12-preserving-copy-then-write", "C12", "silent",
  ("piquasso/_simulators/gaussian/simulation_steps.py", "    _apply_passive_linear(state, passive_block, modes=modes)\n\n    return [Branch(state=state)]\n\n\ndef _apply_passive_linear(",
   "    passive_block = np.copy(passive_block)\n    passive_block[0, 0] = passive_block[0, 0].conjugate()\n    _apply_passive_linear(state, passive_block, modes=modes)\n\n    return [Branch(state=state)]\n\n\ndef _apply_passive_linear("))
V("c12-preserving-cxx-copy", "C12", "silent",
  ("piquasso/_math/torontonian.cpp", "    Matrix<TScalar> native_matrix = numpy_to_matrix(matrix);\n\n    TScalar result = torontonian_cpp(native_matrix);", "    Matrix<TScalar> native_matrix_shared = numpy_to_matrix(matrix);\n    Matrix<TScalar> native_matrix = native_matrix_shared.copy();\n\n    TScalar result = torontonian_cpp(native_matrix);"))

# ------------------------------------------------------------------------------------------- C04
V("c04-laplace-short-accumulator", "C04", {"rule": "C04b", "contains": "short"},
  ("src/permanent_laplace.cpp", "        int binomial_coeff = 1;", "        short binomial_coeff = 1;"))
V("c04-new-int-carrier", "C04", {"rule": "C04b", "contains": "weight_scale"},
  ("src/permanent.cpp", "        char parity = (minus_signs_all % 2 == 0) ? 1 : -1;\n",
   "        int weight_scale = 1;\n        weight_scale *= binomialCoeff<int64_t>(rows[1], gcode[0]);\n        char parity = (minus_signs_all % 2 == 0) ? 1 : -1;\n"))
V("c04-preserving-widened", "C04", "silent",
  ("src/permanent.cpp", "        int binomial_coeff = 1;", "        int64_t binomial_coeff = 1;"),
  ("src/permanent.cpp", "binomialCoeff<int>(row_mult_current, minus_signs)", "binomialCoeff<int64_t>(row_mult_current, minus_signs)"))

# ------------------------------------------------------------------------------------------- C18
GATES = "piquasso/instructions/gates.py"
PREPS = "piquasso/instructions/preparations.py"
CONF = "piquasso/api/config.py"
V("c18-bb-params-order-swapped", "C18", {"rule": "C18a", "contains": "Beamsplitter"},
  (GATES, "            params=dict(\n                theta=theta,\n                phi=phi,\n            ),\n        )\n\n    def _get_passive_block(self, connector, config):",
   "            params=dict(\n                phi=phi,\n                theta=theta,\n            ),\n        )\n\n    def _get_passive_block(self, connector, config):"))
V("c18-bb-unknown-class", "C18", {"rule": "C18a", "contains": "Kgate"},
  ("piquasso/core/_blackbird.py", "\"Kgate\": \"Kerr\"", "\"Kgate\": \"KerrGate\""))
V("c18-param-key-renamed", "C18", {"rule": "C18b", "contains": "Kerr"},
  (GATES, "        super().__init__(params=dict(xi=xi))\n\n\nclass SNAP", "        super().__init__(params=dict(kerr_xi=xi))\n\n\nclass SNAP"))
V("c18-param-value-transformed", "C18", {"rule": "C18b", "contains": "Phaseshifter"},
  (GATES, "        super().__init__(\n            params=dict(phi=phi),\n        )\n\n    def _get_passive_block(self, connector, config):\n        np = connector.np\n\n        phi = self._params[\"phi\"]\n\n        return np.array([[np.exp(1j * phi)]]",
   "        super().__init__(\n            params=dict(phi=phi % 6.283185307179586),\n        )\n\n    def _get_passive_block(self, connector, config):\n        np = connector.np\n\n        phi = self._params[\"phi\"]\n\n        return np.array([[np.exp(1j * phi)]]"))
V("c18-config-eq-misses-field", "C18", {"rule": "C18c", "contains": "use_dask"},
  (CONF, "            and self.use_dask == other.use_dask\n", ""))
V("c18-config-ascode-misses-field", "C18", {"rule": "C18c", "contains": "measurement_cutoff"},
  (CONF, "        if self.measurement_cutoff != default_config.measurement_cutoff:\n            non_default_params[\"measurement_cutoff\"] = self.measurement_cutoff\n", ""))
V("c18-config-ascode-wrong-source", "C18", {"rule": "C18c", "contains": "seed_sequence"},
  (CONF, "            non_default_params[\"seed_sequence\"] = self._original_seed_sequence", "            non_default_params[\"seed_sequence\"] = self.cache_size"))
V("c18-pq-name-unbound", "C18", {"rule": "C18d", "contains": "CubicPhase"},
  ("piquasso/__init__.py", "    Graph,\n    CubicPhase,\n)", "    Graph,\n)"))
V("c18-add-drops-self-coefficient", "C18", {"rule": "C18f", "contains": "self.coefficient"},
  (PREPS, "                fock_amplitude_map = {\n                    self.params[\"occupation_numbers\"]: self.params[\"coefficient\"],\n                    **other_amplitude_map,\n                }",
   "                fock_amplitude_map = {\n                    self.params[\"occupation_numbers\"]: 1.0,\n                    **other_amplitude_map,\n                }"))
V("c18-fsv-add-drops-other-coefficient", "C18", {"rule": "C18f", "contains": "other.coefficient"},
  (PREPS, "                coefficient *= other.params[\"coefficient\"]\n", ""))
V("c18-ndarray-str", "C18", {"rule": "C18e", "contains": "ndarray"},
  (INSTR, "            return \"np.\" + repr(value)", "            return \"np.array(\" + str(value.tolist()) + \")\" if value.size < 4 else f\"np.{value!r}\" + str(value)[:0]"))
V("c18-preserving-tolist", "C18", "silent",
  (INSTR, "            return \"np.\" + repr(value)", "            return \"np.array(\" + repr(value.tolist()) + \")\""))
V("c18-preserving-new-instruction", "C18", "silent",
  (GATES, "class Kerr(Gate):", "class Kerr2(Gate):\n    NUMBER_OF_MODES = 1\n\n    def __init__(self, xi: float, order: int = 2) -> None:\n        super().__init__(params=dict(xi=xi, order=order))\n\n\nclass Kerr(Gate):"),
  ("piquasso/__init__.py", "    Kerr,\n    CrossKerr,", "    Kerr,\n    Kerr2,\n    CrossKerr,"))

# ------------------------------------------------------------------------------------------- C03
UTILS = "piquasso/_utils.py"
V("c03-float-frequency", "C03", {"rule": "C03a", "contains": "frequency"},
  (UTILS, "        sample: Fraction(multiplicity, shots)", "        sample: multiplicity / shots"))
V("c03-fraction-of-float", "C03", {"rule": "C03a", "contains": "frequency"},
  (UTILS, "        sample: Fraction(multiplicity, shots)", "        sample: Fraction(multiplicity / shots)"))
V("c03-count-as-frequency", "C03", {"rule": "C03a", "contains": "multiplicity"},
  ("piquasso/_simulators/passive/simulation_steps.py", "        Branch(state=None, outcome=outcome, frequency=Fraction(multiplicity, shots))", "        Branch(state=None, outcome=outcome, frequency=multiplicity)"))
V("c03-budget-via-float", "C03", {"rule": "C03a", "contains": "int("},
  (SIMF, "int(branch.frequency * shots) if shots is not None else None", "int(float(branch.frequency) * shots) if shots is not None else None"))
V("c03-chain-rule-add", "C03", {"rule": "C03a", "contains": "frequency"},
  (SIMF, "                subbranch.frequency *= branch.frequency", "                subbranch.frequency += branch.frequency"))
V("c03-result-counts-float", "C03", {"rule": "C03a", "contains": "int("},
  ("piquasso/api/result.py", "            ret[branch.outcome] = ret.get(branch.outcome, 0) + int(\n                branch.frequency * shots\n            )\n",
   "            ret[branch.outcome] = ret.get(branch.outcome, 0) + int(\n                float(branch.frequency) * shots\n            )\n"))
V("c03-imperfect-float", "C03", {"rule": "C03a", "contains": "frequency"},
  ("piquasso/_simulators/simulation_steps.py", "        outcome: Fraction(count, shots)\n", "        outcome: count / shots\n"))
V("c03-shots-none-range", "C03", {"rule": "C03b", "contains": "shots"},
  ("piquasso/_simulators/passive/simulation_steps.py", "    if shots is None:\n        if marginal_sampling:", "    budget = shots * 2\n    if shots is None:\n        if marginal_sampling:"))
V("c03-preserving-fraction-product", "C03", "silent",
  (UTILS, "        sample: Fraction(multiplicity, shots)", "        sample: Fraction(multiplicity, 1) * Fraction(1, shots)"))
V("c03-preserving-none-test-flipped", "C03", "silent",
  (UTILS, "    if shots is None:\n        return {\n            sample: probability\n            for sample, probability in probability_map.items()\n            if not np.isclose(probability, 0.0)\n        }\n",
   "    if not (shots is not None):\n        return {\n            sample: probability\n            for sample, probability in probability_map.items()\n            if not np.isclose(probability, 0.0)\n        }\n"))

# ------------------------------------------------------------------------------------------- C11
GSS = "piquasso/_simulators/gaussian/simulation_steps.py"
PSAMP = "piquasso/_simulators/passive/sampling.py"
V("c11-np-global-normal", "C11", {"rule": "C11a", "contains": "np.random"},
  (GSS, "    pure_mean = mean + sqrt_cov_1 @ rng.normal(size=2 * d)", "    pure_mean = mean + sqrt_cov_1 @ np.random.normal(size=2 * d)"))
V("c11-global-shuffle-result", "C11", {"rule": "C11a", "contains": "random.shuffle"},
  ("piquasso/api/result.py", "        r = random.Random(self._config.seed_sequence)\n        r.shuffle(_samples)", "        random.shuffle(_samples)"))
V("c11-unseeded-generator", "C11", {"rule": "C11a", "contains": "unseeded"},
  (GSS, "    rng = np.random.default_rng(seed)\n", "    rng = np.random.default_rng()\n"))
V("c11-dask-seed-differs", "C11", {"rule": "C11b", "contains": "use_dask"},
  (PSAMP, "            compute_list.append(delayed_func(seed=seed + idx))", "            compute_list.append(delayed_func(seed=seed + 2 * idx))"))
V("c11-dask-range-differs", "C11", {"rule": "C11b", "contains": "use_dask"},
  (GSS, "        for idx in range(shots):\n            compute_list.append(delayed_func(seed=seed + idx))", "        for idx in range(1, shots + 1):\n            compute_list.append(delayed_func(seed=seed + idx))"))
V("c11-seed-ignores-config", "C11", {"rule": "C11b", "contains": "seed"},
  (PSAMP, "    seed = config.seed_sequence\n\n    if config.use_dask:", "    seed = 12345\n\n    if config.use_dask:"))
V("c11-shared-rng-in-region", "C11", {"rule": "C11c", "contains": "region"},
  (PSAMP, "def _sample_from_pmf(pmf, rng):\n    return rng.choice(np.arange(pmf.shape[0]), p=pmf)", "def _sample_from_pmf(pmf, rng, config=None):\n    return (config.rng if config is not None else rng).choice(np.arange(pmf.shape[0]), p=pmf) if False else _shared().rng.choice(np.arange(pmf.shape[0]), p=pmf)\n\n\ndef _shared():\n    from piquasso.api.config import Config\n    return Config()"))
V("c11-prange-shared-scalar-index", "C11", {"rule": "C11d", "contains": "prange"},
  ("piquasso/_math/hafnian/plain_hafnian.py", "        delta = np.empty_like(all_edges)\n\n        for i in range(number_of_reps):\n            no_of_edges = all_edges[i]\n            no_of_kept_edges = kept_edges[i]\n\n            fact ^= (no_of_edges - no_of_kept_edges) % 2\n\n            comb_input = (no_of_edges, no_of_kept_edges)",
   "        delta = np.empty_like(all_edges)\n        all_edges[0] = all_edges[0]\n\n        for i in range(number_of_reps):\n            no_of_edges = all_edges[i]\n            no_of_kept_edges = kept_edges[i]\n\n            fact ^= (no_of_edges - no_of_kept_edges) % 2\n\n            comb_input = (no_of_edges, no_of_kept_edges)"))
V("c11-omp-no-remainder", "C11", {"rule": "C11d", "contains": "last job ends"},
  ("src/permanent.cpp", "        if (job_idx == concurrency - 1)\n        {\n            offset_max = idx_max - 1;\n        }\n", ""))
V("c11-omp-shared-accumulator", "C11", {"rule": "C11d", "contains": "shared"},
  ("src/permanent.cpp", "        TComplex &addend_loc = thread_results[static_cast<unsigned int>(job_idx)];", "        TComplex &addend_loc = thread_results[0];"))
V("c11-memo-mutated", "C11", {"rule": "C11e", "contains": "get_fock_space_basis"},
  ("piquasso/_simulators/fock/pure/simulation_steps/__init__.py", "    space = get_fock_space_basis(d=state.d, cutoff=state._config.cutoff)\n\n    xi = instruction._get_all_params(state._connector)[\"xi\"]\n    np = state._np",
   "    space = get_fock_space_basis(d=state.d, cutoff=state._config.cutoff)\n    space[:, 0] += 0\n\n    xi = instruction._get_all_params(state._connector)[\"xi\"]\n    np = state._np"))
V("c11-preserving-rng-renamed", "C11", "silent",
  (GSS, "    rng = np.random.default_rng(seed)\n\n    possible_choices", "    generator = np.random.default_rng(seed)\n    rng = generator\n\n    possible_choices"))
V("c11-preserving-private-generator-in-result", "C11", "silent",
  ("piquasso/api/result.py", "        r = random.Random(self._config.seed_sequence)\n        r.shuffle(_samples)", "        shuffler = random.Random(self._config.seed_sequence)\n        shuffler.shuffle(_samples)"))

# ------------------------------------------------------------------------------------------- C16
PSTEPS = "piquasso/_simulators/passive/simulation_steps.py"
V("c16-fullness-test-set", "C16", {"rule": "C16a", "contains": "set(modes)"},
  (PSTEPS, "    marginal_sampling = tuple(modes) != tuple(range(state.d))", "    marginal_sampling = set(modes) != set(range(state.d))"))
V("c16-sorted-modes-purefock", "C16", {"rule": "C16b", "contains": "sorted"},
  ("piquasso/_simulators/fock/pure/simulation_steps/__init__.py", "    reduced_state = state.reduced(instruction.modes)\n", "    reduced_state = state.reduced(tuple(sorted(instruction.modes)))\n"))
V("c16-unique-modes-helper", "C16", {"rule": "C16b", "contains": "unique"},
  ("piquasso/_simulators/gaussian/simulation_steps.py", "def _map_modes_to_xpxp_indices(modes):\n    indices = []\n", "def _map_modes_to_xpxp_indices(modes):\n    modes = np.unique(modes)\n    indices = []\n"))
V("c16-preserving-distinctness-set", "C16", "silent",
  (PSTEPS, "    modes = instruction.modes\n\n    # NOTE: The comparison", "    modes = instruction.modes\n    assert len(set(modes)) == len(modes)\n\n    # NOTE: The comparison"))
V("c16-preserving-list-wrap", "C16", "silent",
  (PSTEPS, "    marginal_sampling = tuple(modes) != tuple(range(state.d))", "    marginal_sampling = list(modes) != list(range(state.d))"))

# ------------------------------------------------------------------------------------------- C09
JAXC = "piquasso/_simulators/connectors/jax_/connector.py"
TFC = "piquasso/_simulators/connectors/tensorflow_/connector.py"
V("c09-jax-missing-method", "C09", {"rule": "C09a", "contains": "JaxConnector.svd"},
  (JAXC, "    def svd(self, *args, **kwargs):\n        return self.np.linalg.svd(*args, **kwargs)\n", ""))
V("c09-tf-assign-signature", "C09", {"rule": "C09a", "contains": "TensorflowConnector.assign"},
  (TFC, "    def assign(self, array, index, value):", "    def assign(self, array, index):\n        value = 0"))
V("c09-jax-polar-extra-required", "C09", {"rule": "C09a", "contains": "JaxConnector.polar"},
  (JAXC, "    def polar(self, a, side):", "    def polar(self, a, side, method):"))
V("c09-inplace-on-connector-array", "C09", {"rule": "C09b", "contains": "_apply_matrix_on_modes"},
  ("piquasso/_simulators/passive/simulation_steps.py", "    embedded = connector.assign(\n        embedded, fallback_np.ix_(actual_modes, actual_modes), matrix\n    )", "    embedded[fallback_np.ix_(actual_modes, actual_modes)] = matrix"))
V("c09-assign-result-discarded", "C09", {"rule": "C09b", "contains": "assign-result-discarded"},
  ("piquasso/_simulators/passive/simulation_steps.py", "    embedded = connector.assign(\n        embedded, fallback_np.ix_(actual_modes, actual_modes), matrix\n    )", "    connector.assign(\n        embedded, fallback_np.ix_(actual_modes, actual_modes), matrix\n    )"))
V("c09-validate-no-abstract-guard", "C09", {"rule": "C09c", "contains": "Thermal"},
  (PREPS, "        mean_photon_numbers = self.params[\"mean_photon_numbers\"]\n\n        if connector.is_abstract(mean_photon_numbers):\n            return\n", "        mean_photon_numbers = self.params[\"mean_photon_numbers\"]\n"))
V("c09-validate-guard-after-use", "C09", {"rule": "C09c", "contains": "Interferometer"},
  (GATES, "        if connector.is_abstract(matrix):\n            return\n\n        if not is_square(matrix):\n            raise InvalidParameter(\n                \"The interferometer matrix should be a square matrix.\"\n            )\n",
   "        if not is_square(matrix):\n            raise InvalidParameter(\n                \"The interferometer matrix should be a square matrix.\"\n            )\n\n        if connector.is_abstract(matrix):\n            return\n"))
V("c09-preserving-host-array-write", "C09", "silent",
  ("piquasso/_simulators/passive/simulation_steps.py", "    embedded = np.identity(len(state.interferometer), dtype=state._config.complex_dtype)\n", "    embedded = np.identity(len(state.interferometer), dtype=state._config.complex_dtype)\n    scratch = fallback_np.zeros(3)\n    scratch[0] = 1.0\n"))
V("c09-preserving-new-connector-method", "C09", "silent",
  (JAXC, "    def svd(self, *args, **kwargs):", "    def eigh(self, *args, **kwargs):\n        return self.np.linalg.eigh(*args, **kwargs)\n\n    def svd(self, *args, **kwargs):"))

# ------------------------------------------------------------------------------------------- C07
V("c07-beamsplitter-sign", "C07", {"rule": "C07a", "contains": "Beamsplitter"},
  (GATES, "                [t, -np.conj(r)],\n                [r, t],", "                [t, np.conj(r)],\n                [r, t],"))
V("c07-squeezing-cosh-sinh-swapped", "C07", {"rule": "C07a", "contains": "Squeezing"},
  (GATES, "        return np.array([[np.cosh(r)]], dtype=config.complex_dtype)", "        return np.array([[np.sinh(r)]], dtype=config.complex_dtype)"))
V("c07-quadratic-phase-active", "C07", {"rule": "C07a", "contains": "QuadraticPhase"},
  (GATES, "        return connector.np.array([[s / 2 * 1j]], dtype=config.complex_dtype)", "        return connector.np.array([[s * 1j]], dtype=config.complex_dtype)"))
V("c07-controlledz-asymmetric", "C07", {"rule": "C07a", "contains": "ControlledZ"},
  (GATES, "                [1, 1j * (s / 2)],\n                [1j * (s / 2), 1],", "                [1, 1j * (s / 2)],\n                [-1j * (s / 2), 1],"))
V("c07-fourier-minus-i", "C07", {"rule": "C07b", "contains": "Fourier"},
  (GATES, "        return connector.np.array([[1j]], dtype=config.complex_dtype)", "        return connector.np.array([[-1j]], dtype=config.complex_dtype)"))
V("c07-bs5050-transposed", "C07", {"rule": "C07b", "contains": "Beamsplitter5050"},
  (GATES, "                [1, -1],\n                [1, 1],", "                [1, 1],\n                [-1, 1],"))
V("c07-machzehnder-ext-int-swapped", "C07", {"rule": "C07b", "contains": "MachZehnder"},
  (GATES, "        int_phase, ext_phase = np.exp(1j * np.array([int_, ext]))", "        ext_phase, int_phase = np.exp(1j * np.array([int_, ext]))"))
V("c07-squeezing2-sign", "C07", {"rule": "C07b", "contains": "Squeezing2"},
  (GATES, "                [0, np.sinh(r) * np.exp(1j * phi)],\n                [np.sinh(r) * np.exp(1j * phi), 0],", "                [0, -np.sinh(r) * np.exp(1j * phi)],\n                [-np.sinh(r) * np.exp(1j * phi), 0],"))
V("c07-momentum-displacement-phase", "C07", {"rule": "C07b", "contains": "MomentumDisplacement"},
  (GATES, "        return dict(r=self.params[\"p\"], phi=np.pi / 2)", "        return dict(r=self.params[\"p\"], phi=-np.pi / 2)"))
V("c07-displacement-step-conj", "C07", {"rule": "C07c", "contains": "displacement"},
  (GSS, "state._m[indices] + r * np.exp(1j * phi)", "state._m[indices] + r * np.exp(-1j * phi)"))
V("c07-interferometer-unvalidated", "C07", {"rule": "C07a", "contains": "Interferometer"},
  (GATES, "        if not is_square(matrix):\n            raise InvalidParameter(\n                \"The interferometer matrix should be a square matrix.\"\n            )\n", "        return\n"))
V("c07-preserving-beamsplitter-rewritten", "C07", "silent",
  (GATES, "        t = np.cos(theta)\n        r = np.exp(1j * phi) * np.sin(theta)\n", "        t = np.sin(theta + np.pi / 2)\n        r = np.sin(theta) * (np.cos(phi) + 1j * np.sin(phi))\n"))
V("c07-preserving-squeezing-exp-form", "C07", "silent",
  (GATES, "        return np.array([[np.cosh(r)]], dtype=config.complex_dtype)", "        return np.array([[(np.exp(r) + np.exp(-r)) / 2]], dtype=config.complex_dtype)"))

# ------------------------------------------------------------------------------------------- C19
DR = "piquasso/dual_rail_encoding.py"
V("c19-rx-phase-sign", "C19", {"rule": "C19b", "contains": "rx"},
  (DR, "pq.Beamsplitter(theta / 2, -np.pi / 2).on_modes(mode1, mode2)", "pq.Beamsplitter(theta / 2, np.pi / 2).on_modes(mode1, mode2)"))
V("c19-rz-global-phase", "C19", {"rule": "C19b", "contains": "rz"},
  (DR, "    instructions.append(pq.Phaseshifter(-1 / 2 * theta).on_modes(mode1))\n    instructions.append(pq.Phaseshifter(1 / 2 * theta).on_modes(mode2))", "    instructions.append(pq.Phaseshifter(theta).on_modes(mode2))"))
V("c19-hadamard-order", "C19", {"rule": "C19b", "contains": "|h"},
  (DR, "    instructions.append(pq.Phaseshifter(np.pi).on_modes(mode2))\n    instructions.append(pq.Beamsplitter(np.pi / 4).on_modes(mode1, mode2))", "    instructions.append(pq.Beamsplitter(np.pi / 4).on_modes(mode1, mode2))\n    instructions.append(pq.Phaseshifter(np.pi).on_modes(mode2))"))
V("c19-u3-lambda-phi-swapped", "C19", {"rule": "C19b", "contains": "|u"},
  (DR, "    instructions.append(pq.Phaseshifter(lam).on_modes(mode2))\n    instructions.append(pq.Beamsplitter(theta / 2, 0).on_modes(mode1, mode2))\n    instructions.append(pq.Phaseshifter(phi).on_modes(mode2))",
   "    instructions.append(pq.Phaseshifter(phi).on_modes(mode2))\n    instructions.append(pq.Beamsplitter(theta / 2, 0).on_modes(mode1, mode2))\n    instructions.append(pq.Phaseshifter(lam).on_modes(mode2))"))
V("c19-p-on-wrong-rail", "C19", {"rule": "C19b", "contains": "|p"},
  (DR, "_phase_gate_bosonic(qiskit_instruction.params[0], modes[1])", "_phase_gate_bosonic(qiskit_instruction.params[0], modes[0])"))
V("c19-y-missing-phase", "C19", {"rule": "C19b", "contains": "|y"},
  (DR, "    instructions.append(pq.Beamsplitter(-np.pi / 2, np.pi / 2).on_modes(mode1, mode2))\n    instructions.append(pq.Phaseshifter(np.pi).on_modes(mode2))", "    instructions.append(pq.Beamsplitter(-np.pi / 2, np.pi / 2).on_modes(mode1, mode2))"))
V("c19-arm-removed", "C19", {"rule": "C19a", "contains": "arm-ry"},
  (DR, "    elif instruction_name == \"ry\":\n        instructions.extend(\n            _ry_bosonic(qiskit_instruction.params[0], modes[0], modes[1])\n        )\n", ""))
V("c19-preserving-x-rewritten", "C19", "silent",
  (DR, "    instructions.append(pq.Phaseshifter(np.pi).on_modes(mode2))\n    instructions.append(pq.Beamsplitter(np.pi / 2).on_modes(mode1, mode2))", "    instructions.append(pq.Phaseshifter(-np.pi).on_modes(mode2))\n    instructions.append(pq.Beamsplitter(np.pi / 2, 0.0).on_modes(mode1, mode2))"))

# ------------------------------------------------------------------------------------------- C15
CL = "piquasso/decompositions/clements.py"
V("c15-embedded-phase-on-other-column", "C15", {"rule": "C15a", "contains": "embedded-block"},
  (CL, "            [np.exp(1j * phi) * c, -s],\n            [np.exp(1j * phi) * s, c],", "            [c, -np.exp(1j * phi) * s],\n            [s, np.exp(1j * phi) * c],"))
V("c15-instructions-ps-on-second-mode", "C15", {"rule": "C15a", "contains": "embedded-block"},
  (CL, "instructions.append(Phaseshifter(bs.params[1]).on_modes(bs.modes[0]))", "instructions.append(Phaseshifter(bs.params[1]).on_modes(bs.modes[1]))"))
V("c15-instructions-bs-before-ps", "C15", {"rule": "C15a", "contains": "embedded-block"},
  (CL, "        instructions.append(Phaseshifter(bs.params[1]).on_modes(bs.modes[0]))\n        instructions.append(Beamsplitter(bs.params[0], 0.0).on_modes(*bs.modes))", "        instructions.append(Beamsplitter(bs.params[0], 0.0).on_modes(*bs.modes))\n        instructions.append(Phaseshifter(bs.params[1]).on_modes(bs.modes[0]))"))
V("c15-inverse-right-multiplies", "C15", {"rule": "C15a", "contains": "traversal"},
  (CL, "        interferometer = beamsplitter_matrix @ interferometer", "        interferometer = interferometer @ beamsplitter_matrix"))
V("c15-inverse-phase-sign", "C15", {"rule": "C15a", "contains": "phase-factor"},
  (CL, "    interferometer = np.diag(np.exp(1j * phis)) @ interferometer", "    interferometer = np.diag(np.exp(-1j * phis)) @ interferometer"))
V("c15-weights-reader-swapped", "C15", {"rule": "C15b", "contains": "weights-layout"},
  (CL, "        beamsplitter.params = (weights[index], weights[index + 1])", "        beamsplitter.params = (weights[index + 1], weights[index])"))
V("c15-weights-writer-fields-swapped", "C15", {"rule": "C15b", "contains": "weights-layout"},
  (CL, "        weights = connector.assign(weights, index, beamsplitter.params[0])\n        index += 1\n        weights = connector.assign(weights, index, beamsplitter.params[1])\n        index += 1\n",
   "        weights = connector.assign(weights, index, beamsplitter.params[1])\n        index += 1\n        weights = connector.assign(weights, index, beamsplitter.params[0])\n        index += 1\n"))
V("c15-preserving-trig-rewrite", "C15", "silent",
  (CL, "    c = np.cos(theta).astype(dtype)\n    s = np.sin(theta).astype(dtype)", "    c = np.sin(theta + np.pi / 2).astype(dtype)\n    s = np.cos(theta - np.pi / 2).astype(dtype)"))

# ------------------------------------------------------------------------------------------- C14
GST = "piquasso/_simulators/gaussian/state.py"
V("c14-purity-constant", "C14", {"rule": "C14", "contains": "get_purity"},
  (GST, "            hbar**self.d / np.sqrt(np.linalg.det(self.xxpp_covariance_matrix))", "            2**self.d / np.sqrt(np.linalg.det(self.xxpp_covariance_matrix))"))
V("c14-mean-getter-no-hbar", "C14", {"rule": "C14", "contains": "xxpp_mean_vector"},
  (GST, "        return dimensionless_xxpp_mean_vector * np.sqrt(self._config.hbar)", "        return dimensionless_xxpp_mean_vector * np.sqrt(2.0)"))
V("c14-cov-setter-forgets-hbar", "C14", {"rule": "C14", "contains": "setter"},
  (GST, "        dimensionless_cov = new_cov / self._config.hbar\n", "        dimensionless_cov = new_cov / 2.0\n"))
V("c14-fidelity-mean-unscaled", "C14", {"rule": "C14", "contains": "fidelity"},
  (GST, "        mu_2 = state.xpxp_mean_vector / np.sqrt(hbar)", "        mu_2 = state.xpxp_mean_vector"))
V("c14-threshold-cov-unscaled", "C14", {"rule": "C14", "contains": "get_threshold_detection_probability"},
  (GST, "            return calculate_click_probability_nondisplaced(\n                self.xpxp_covariance_matrix / hbar,", "            return calculate_click_probability_nondisplaced(\n                self.xpxp_covariance_matrix / 2,"))
V("c14-string-moment-hbar-dropped", "C14", {"rule": "C14", "contains": "get_xp_string_moment"},
  (GST, "second_order_moments = cov_xxpp / 2 + 0.5j * hbar * xp_symplectic_form(d)", "second_order_moments = cov_xxpp / 2 + 1.0j * xp_symplectic_form(d)"))
V("c14-cov-getter-identity-scaled-wrong", "C14", {"rule": "C14", "contains": "xxpp_covariance_matrix"},
  (GST, "        return dimensionless_xxpp_covariance_matrix * self._config.hbar", "        return dimensionless_xxpp_covariance_matrix * self._config.hbar + np.identity(2 * self.d)"))
V("c14-preserving-sqrt-split", "C14", "silent",
  (GST, "        m = (value[::2] + 1j * value[1::2]) / np.sqrt(2 * self._config.hbar)", "        m = (value[::2] + 1j * value[1::2]) / (np.sqrt(2) * np.sqrt(self._config.hbar))"))
V("c14-preserving-hbar-local", "C14", "silent",
  (GST, "        return dimensionless_xxpp_covariance_matrix * self._config.hbar", "        hbar = self._config.hbar\n        return hbar * dimensionless_xxpp_covariance_matrix"))

# ------------------------------------------------------------------------------------------- C02
V("c02-pnm-ratio-inverted", "C02", {"rule": "C02a", "contains": "normalized_cov"},
  (GSS, "        hbar_in_calculations / (2.0 * hbar) * reduced_state.xxpp_covariance_matrix", "        hbar / (2.0 * hbar_in_calculations) * reduced_state.xxpp_covariance_matrix"))
V("c02-pnm-mean-unscaled", "C02", {"rule": "C02a", "contains": "_generate_sample"},
  (GSS, "        np.sqrt(hbar_in_calculations / hbar) * reduced_state.xxpp_mean_vector", "        reduced_state.xxpp_mean_vector / np.sqrt(2.0)"))
V("c02-threshold-mean-unscaled", "C02", {"rule": "C02a", "contains": "calculate_click_probability"},
  (GSS, "            reduced_state.xpxp_mean_vector / np.sqrt(hbar),", "            reduced_state.xpxp_mean_vector,"))
V("c02-generaldyne-detcov-no-hbar", "C02", {"rule": "C02", "contains": "_get_generaldyne_samples"},
  (GSS, "def _get_generaldyne_samples(state, modes, shots, detection_covariance):\n    indices = _map_modes_to_xpxp_indices(modes)\n\n    full_detection_covariance = state._config.hbar * scipy.linalg.block_diag(",
   "def _get_generaldyne_samples(state, modes, shots, detection_covariance):\n    indices = _map_modes_to_xpxp_indices(modes)\n\n    full_detection_covariance = 2.0 * scipy.linalg.block_diag("))
V("c02-evolved-state-detcov-no-hbar", "C02", {"rule": "C02a", "contains": "_get_generaldyne_evolved_state"},
  (GSS, "def _get_generaldyne_evolved_state(state, sample, modes, detection_covariance):\n    full_detection_covariance = state._config.hbar * scipy.linalg.block_diag(",
   "def _get_generaldyne_evolved_state(state, sample, modes, detection_covariance):\n    full_detection_covariance = scipy.linalg.block_diag("))
V("c02-mean-prep-no-sqrt", "C02", {"rule": "C02a", "contains": "mean"},
  (GSS, "        \"mean\"\n    ] * np.sqrt(state._config.hbar)", "        \"mean\"\n    ] * state._config.hbar"))
V("c02-channel-Y-no-hbar", "C02", {"rule": "C02a", "contains": "deterministic_gaussian_channel"},
  (GSS, "    Y = instruction._get_all_params(state._connector)[\"Y\"] * state._config.hbar", "    Y = instruction._get_all_params(state._connector)[\"Y\"] * 2"))
V("c02-purefock-homodyne-unscaled", "C02", {"rule": "C02a", "contains": "homodyne"},
  ("piquasso/_simulators/fock/pure/simulation_steps/homodyne.py", "    scaled_samples = sqrt_hbar * samples", "    scaled_samples = np.sqrt(2.0) * samples"))
V("c02-draw-mean-shifted", "C02", {"rule": "C02b", "contains": "mean"},
  (GSS, "        mean=mean,\n        cov=cov,", "        mean=2 * mean,\n        cov=cov,"))
V("c02-outcome-order-reversed", "C02", {"rule": "C02c", "contains": "previous-outcome-first"},
  (SIMF, "                subbranch.outcome = tuple([*branch.outcome, *subbranch.outcome])", "                subbranch.outcome = tuple([*subbranch.outcome, *branch.outcome])"))
V("c02-preserving-half-cov", "C02", "silent",
  (GSS, "    mean = state.xpxp_mean_vector[indices]\n", "    mean = 1.0 * state.xpxp_mean_vector[indices]\n"))

# ------------------------------------------------------------------------------------------- C08
V("c08-validate-cov-unscaled", "C08", {"rule": "C08", "contains": "_validate_cov"},
  (GST, "            cov / self._config.hbar + 1j * symplectic_form(d)", "            cov / 2 + 1j * symplectic_form(d)"))
V("c08-purity-constant", "C08", {"rule": "C08", "contains": "get_purity"},
  (GST, "            hbar**self.d / np.sqrt(np.linalg.det(self.xxpp_covariance_matrix))", "            2**self.d / np.sqrt(np.linalg.det(self.xxpp_covariance_matrix))"))
V("c08-fidelity-sigma-unscaled", "C08", {"rule": "C08", "contains": "fidelity"},
  (GST, "        sigma_2 = state.xpxp_covariance_matrix / hbar", "        sigma_2 = state.xpxp_covariance_matrix"))
V("c08-uncertainty-not-tested", "C08", {"rule": "C08", "contains": "uncertainty"},
  (GST, "        if not is_positive_semidefinite(\n            cov / self._config.hbar + 1j * symplectic_form(d)\n        ):", "        if False:"))
V("c08-preserving-hbar-alias", "C08", "silent",
  (GST, "        if not is_positive_semidefinite(\n            cov / self._config.hbar + 1j * symplectic_form(d)\n        ):", "        hbar = self._config.hbar\n        if not is_positive_semidefinite(\n            cov / hbar + 1j * symplectic_form(d)\n        ):"))
V("c03-denominator-len-samples", "C03", {"rule": "C03a", "contains": "denominator"},
  (GSS, "    return [\n        Branch(state=None, outcome=outcome, frequency=Fraction(1, shots))\n        for outcome in samples\n    ]\n\n\ndef _get_particle_number_measurement_samples(",
   "    total = len(samples) + 1\n    return [\n        Branch(state=None, outcome=outcome, frequency=Fraction(1, total))\n        for outcome in samples\n    ]\n\n\ndef _get_particle_number_measurement_samples("))
V("c12-state-copy-shallow", "C12", {"rule": "C12b", "contains": "copy"},
  ("piquasso/api/state.py", "        return copy.deepcopy(self)", "        return copy.copy(self)"))
V("c12-purefock-copy-shares-vector", "C12", {"rule": "C12b", "contains": "copy"},
  ("piquasso/_simulators/fock/pure/state.py", "        state.state_vector = self._connector.np.copy(self.state_vector)", "        state.state_vector = self.state_vector"))
V("c12-instruction-copy-shallow", "C12", {"rule": "C12b", "contains": "copy"},
  ("piquasso/core/_mixins.py", "        return copy.deepcopy(self)", "        return copy.copy(self)"))
V("c07-passive-C-update-no-conj", "C07", {"rule": "C07e", "contains": "_apply_passive_linear_to_C_and_G"},
  (GSS, "        state._C, index, T.conjugate() @ state._C[index] @ T.transpose()", "        state._C, index, T @ state._C[index] @ T.transpose()"))
V("c07-active-G-update-term-dropped", "C07", {"rule": "C07e", "contains": "_apply_linear_to_C_and_G"},
  (GSS, "        + P @ (original_C.transpose() + np.identity(len(modes))) @ A.transpose()", "        + P @ original_C.transpose() @ A.transpose()"))
V("c07-mean-update-no-conj", "C07", {"rule": "C07e", "contains": "_apply_linear"},
  (GSS, "    active_part = active_block @ np.conj(state._m[modes,])", "    active_part = active_block @ state._m[modes,]"))
V("c07-aux-blocks-swapped", "C07", {"rule": "C07e", "contains": "auxiliary"},
  (GSS, "        P.conjugate() @ auxiliary_C + A.conjugate() @ auxiliary_G,", "        P.conjugate() @ auxiliary_G + A.conjugate() @ auxiliary_C,"))
V("c07-aux-fill-no-conj", "C07", {"rule": "C07e", "contains": "hermitian fill"},
  (GSS, "        state._C, assign_index, np.conj(state._C[modes, :]).transpose()", "        state._C, assign_index, state._C[modes, :].transpose()"))
V("c07-preserving-transposed-rewrite", "C07", "silent",
  (GSS, "    state._G = connector.assign(state._G, index, T @ state._G[index] @ T.transpose())", "    state._G = connector.assign(state._G, index, (T @ state._G[index].transpose() @ T.transpose()).transpose())"))
V("c12-resolve-writes-incrementally", "C12", {"rule": "C12a", "contains": "atomic"},
  (INSTR, "            _resolved_params[name] = resolved_param\n\n        self._params.update(_resolved_params)", "            self._params[name] = resolved_param"))
V("c12-validate-sorts-user-list", "C12", {"rule": "C12c", "contains": "_validate_instruction_order"},
  (SIMF, "    def _validate_instruction_order(self, instructions: List[Instruction]) -> None:\n        self._validate_preparations_at_beginning(instructions)", "    def _validate_instruction_order(self, instructions: List[Instruction]) -> None:\n        instructions.sort(key=lambda i: not isinstance(i, Preparation))\n        self._validate_preparations_at_beginning(instructions)"))
V("c12-export-reverses-program", "C12", {"rule": "C12c", "contains": "to_blackbird_code"},
  ("piquasso/api/program.py", "        blackbird_program = _blackbird.export_instructions(self.instructions)\n\n        return blackbird.dumps(blackbird_program)", "        self.instructions.reverse()\n        blackbird_program = _blackbird.export_instructions(self.instructions)\n\n        return blackbird.dumps(blackbird_program)"))
V("c12-execute-pops-measurement", "C12", {"rule": "C12c", "contains": "execute"},
  (SIMF, "        instructions: List[Instruction] = program.instructions\n", "        instructions: List[Instruction] = program.instructions\n        if instructions and shots is None:\n            instructions.append(instructions.pop())\n"))
V("c03-samples-rounded", "C03", {"rule": "C03a", "contains": "float"},
  ("piquasso/api/result.py", "            _samples.extend([tuple(branch.outcome)] * int(branch.frequency * shots))", "            _samples.extend([tuple(branch.outcome)] * round(float(branch.frequency * shots) + 0.4))"))

# --- added after the first seeded round (own variants of the same classes of change)
V("c13-prep-rule-armed-by-gate-only", "C13", {"rule": "C13a", "contains": "complement of Preparation"},
  (SIMF, "                if any(\n                    not isinstance(previous_instruction, Preparation)\n                    for previous_instruction in previous_instuctions\n                ):",
   "                if any(\n                    isinstance(previous_instruction, Gate)\n                    for previous_instruction in previous_instuctions\n                ):"),
  (SIMF, "from piquasso.api.instruction import (\n    Instruction,", "from piquasso.api.instruction import (\n    Gate,\n    Instruction,"))
V("c16-length-based-fullness-bypass", "C16", {"rule": "C16a", "contains": "len(modes)"},
  (GSS, "    reduced_state = state.reduced(modes)\n\n    d = reduced_state.d\n\n    hbar = config.hbar", "    reduced_state = state.reduced(modes) if len(modes) != state.d else state\n\n    d = reduced_state.d\n\n    hbar = config.hbar"))
V("c16-complement-of-complement", "C16", {"rule": "C16b", "contains": "complement"},
  ("piquasso/_simulators/fock/pure/state.py", "        auxiliary_modes = get_auxiliary_modes(self.d, modes)\n", "        auxiliary_modes = get_auxiliary_modes(self.d, modes)\n        modes = get_auxiliary_modes(self.d, auxiliary_modes)\n"))
V("c16-postselected-modes-sorted", "C16", {"rule": "C16b", "contains": "_postselections"},
  ("piquasso/_simulators/passive/state.py", "        return tuple(self._postselections.keys())", "        return tuple(sorted(self._postselections.keys()))"))
V("c16-preserving-length-check-for-validation", "C16", "silent",
  (GSS, "    reduced_state = state.reduced(modes)\n\n    d = reduced_state.d\n\n    hbar = config.hbar", "    reduced_state = state.reduced(modes)\n    if len(modes) == state.d:\n        pass\n\n    d = reduced_state.d\n\n    hbar = config.hbar"))
V("c19-phase-guard-one-sided", "C19", {"rule": "C19b", "contains": "skip-guard"},
  (DR, "    if not np.isclose(theta, 0.0):", "    if theta > 0.0:"))
V("c19-qubits-sorted", "C19", {"rule": "C19c", "contains": "qubit-operand-order"},
  (DR, "        qubit_indices = [qc.find_bit(q).index for q in instr_qiskit.qubits]", "        qubit_indices = sorted(qc.find_bit(q).index for q in instr_qiskit.qubits)"))
V("c19-preserving-abs-guard", "C19", "silent",
  (DR, "    if not np.isclose(theta, 0.0):", "    if abs(theta) > 1e-12:"))

# --- job partition proved as a tiling (C11d)
V("c11-partition-overlap", "C11", {"rule": "C11d", "contains": "starts right after"},
  ("src/permanent.cpp", "        int64_t offset_max = (job_idx + 1) * work_batch - 1;", "        int64_t offset_max = (job_idx + 1) * work_batch;"))
V("c11-partition-inner-loop-short", "C11", {"rule": "C11d", "contains": "own loop"},
  ("src/permanent_laplace.cpp", "i < offset_max + 1; i++)", "i < offset_max; i++)"))
V("c11-partition-balanced-wrong-end", "C11", {"rule": "C11d", "contains": "partition"},
  ("src/permanent.cpp", "        int64_t initial_offset = job_idx * work_batch;\n        int64_t offset_max = (job_idx + 1) * work_batch - 1;\n        if (job_idx == concurrency - 1)\n        {\n            offset_max = idx_max - 1;\n        }\n",
   "        int64_t remainder = idx_max % concurrency;\n        int64_t shift = job_idx < remainder ? job_idx : remainder;\n        int64_t initial_offset = job_idx * work_batch + shift;\n        int64_t offset_max = (job_idx + 1) * work_batch + shift - 1;\n"))
V("c11-preserving-balanced-partition", "C11", "silent",
  ("src/permanent.cpp", "        int64_t initial_offset = job_idx * work_batch;\n        int64_t offset_max = (job_idx + 1) * work_batch - 1;\n        if (job_idx == concurrency - 1)\n        {\n            offset_max = idx_max - 1;\n        }\n",
   "        int64_t remainder = idx_max % concurrency;\n        int64_t shift = job_idx < remainder ? job_idx : remainder;\n        int64_t next_shift = job_idx + 1 < remainder ? job_idx + 1 : remainder;\n        int64_t initial_offset = job_idx * work_batch + shift;\n        int64_t offset_max = (job_idx + 1) * work_batch + next_shift - 1;\n"))
V("c11-preserving-ternary-remainder", "C11", "silent",
  ("src/permanent.cpp", "        int64_t offset_max = (job_idx + 1) * work_batch - 1;\n        if (job_idx == concurrency - 1)\n        {\n            offset_max = idx_max - 1;\n        }\n",
   "        int64_t offset_max = (job_idx == concurrency - 1) ? idx_max - 1 : (job_idx + 1) * work_batch - 1;\n"))

# --- rules added after the seeded round (second batch)
PREPS2 = "piquasso/instructions/preparations.py"
RESULT = "piquasso/api/result.py"
PHAF = "piquasso/_math/hafnian/plain_hafnian.py"
V("c11f-bound-array-written-in-region", "C11", {"rule": "C11f", "contains": "mean"},
  (GSS, "    pure_mean = mean + sqrt_cov_1 @ rng.normal(size=2 * d)\n", "    mean[:] = mean + sqrt_cov_1 @ rng.normal(size=2 * d)\n    pure_mean = mean\n"))
V("c11f-free-variable-written-in-closure", "C11", {"rule": "C11f", "contains": "first_quantized_input"},
  (PSAMP, "    def _generate_sample_from_seed(seed):\n        rng = np.random.default_rng(seed=seed)\n", "    def _generate_sample_from_seed(seed):\n        rng = np.random.default_rng(seed=seed)\n        first_quantized_input[0] = first_quantized_input[0]\n"))
V("c11f-preserving-local-work-array", "C11", "silent",
  (GSS, "    pure_mean = mean + sqrt_cov_1 @ rng.normal(size=2 * d)\n", "    pure_mean = np.copy(mean)\n    pure_mean[:] = pure_mean + sqrt_cov_1 @ rng.normal(size=2 * d)\n"))
V("c11a-shuffle-seed-not-from-seed-sequence", "C11", {"rule": "C11a", "contains": "unseeded"},
  (RESULT, "        r = random.Random(self._config.seed_sequence)", "        r = random.Random(len(_samples))"))
V("c11a-preserving-seed-via-local", "C11", "silent",
  (RESULT, "        r = random.Random(self._config.seed_sequence)", "        shuffle_seed = self._config.seed_sequence\n        r = random.Random(shuffle_seed)"))
V("c03c-passive-weights-renormalised", "C03", {"rule": "C03c", "contains": "shots-none-weight"},
  (PSTEPS, "            Branch(state=None, outcome=outcome, frequency=probability)\n", "            Branch(state=None, outcome=outcome, frequency=probability / sum(probabilities.values()))\n"))
V("c03c-preserving-renamed-weight", "C03", "silent",
  (PSTEPS, "            Branch(state=None, outcome=outcome, frequency=probability)\n            for outcome, probability in probabilities.items()", "            Branch(state=None, outcome=outcome, frequency=p)\n            for outcome, p in probabilities.items()"))
V("c04-shift-unsigned-int", "C04", {"rule": "C04b", "contains": "shift"},
  ("src/permanent.cpp", "    permanent /= static_cast<T>(ldexp(1.0, sum_rows - 1));", "    permanent /= static_cast<T>(1u << (sum_rows - 1));"))
V("c04-preserving-shift-64", "C04", "silent",
  ("src/permanent.cpp", "    permanent /= static_cast<T>(ldexp(1.0, sum_rows - 1));", "    permanent /= static_cast<T>(static_cast<int64_t>(1) << (sum_rows - 1));"))
V("c04c-unapplied-factor-returned", "C04", {"rule": "C04c", "contains": "returned-factor"},
  (PHAF, "    if scale_factor < 1e-8:\n        return matrix, 1.0\n", "    if scale_factor < 1e-8:\n        return matrix, scale_factor\n"))
V("c04c-preserving-renamed-factor", "C04", "silent",
  (PHAF, "    scale_factor = np.sqrt(scale_factor / 2) / (dim**2)\n\n    matrix *= scale_factor\n\n    return matrix, scale_factor\n", "    factor = np.sqrt(scale_factor / 2) / (dim**2)\n\n    matrix *= factor\n\n    return matrix, factor\n"))
V("c07-quadratic-phase-doubled", "C07", {"rule": "C07b", "contains": "docstring"},
  (GATES, "[[1 + s / 2 * 1j]]", "[[1 + s * 1j]]"), (GATES, "[[s / 2 * 1j]]", "[[s * 1j]]"))
V("c07-quadratic-phase-hbar", "C07", {"rule": "C07a", "contains": "depends-on-hbar"},
  (GATES, "[[1 + s / 2 * 1j]]", "[[1 + s / config.hbar * 1j]]"), (GATES, "[[s / 2 * 1j]]", "[[s / config.hbar * 1j]]"))
V("c07-preserving-doc-prefactor-decimal", "C07", "silent",
  (GATES, "        S_{(c)} = \\frac{1}{2} \\begin{bmatrix}\n        e^{i \\phi_{ext} }", "        S_{(c)} = 0.5 \\begin{bmatrix}\n        e^{i \\phi_{ext} }"))
V("c18f-unweighted-iteration", "C18", {"rule": "C18f", "contains": "amplitudes-weighted"},
  (PREPS2, "                coefficient *= other.params[\"coefficient\"]\n", ""))
V("c18f-preserving-alias-of-map", "C18", "silent",
  (PREPS2, "            for occupation_numbers, coefficient in other.params[\n                \"fock_amplitude_map\"\n            ].items():\n                coefficient *= other.params[\"coefficient\"]",
   "            amap = other.params[\"fock_amplitude_map\"]\n            for occupation_numbers, coefficient in amap.items():\n                coefficient *= other.params[\"coefficient\"]"))
V("c20e-eager-comparators", "C20", {"rule": "C20e", "contains": "lazy"},
  (EXPR, "            for op_node, right_expr in zip(node.ops, node.comparators):\n                right = self._eval(right_expr, x)\n", "            rights = [self._eval(e, x) for e in node.comparators]\n            for op_node, right in zip(node.ops, rights):\n"))
V("c20b-base-class-in-whitelist", "C20", {"rule": "C20b", "contains": "not-in-CMPOPS"},
  (EXPR, "    | set(CMPOPS.keys())\n", "    | set(CMPOPS.keys())\n    | {ast.cmpop}\n"))
V("c20b-preserving-redundant-whitelist-entry", "C20", "silent",
  (EXPR, "    | set(CMPOPS.keys())\n", "    | set(CMPOPS.keys())\n    | {ast.Eq}\n"))

# --- third batch: order-insensitive shortcuts in gate steps (C07f / C16a''), keyed draws (C02d)
SIMSTEPS = "piquasso/_simulators/simulation_steps.py"
V("c07f-contiguous-slice-shortcut", "C07", {"rule": "C07f", "contains": "len(modes)"},
  (GSS, "    index = get_operator_index(modes)\n\n    state._C = connector.assign(\n        state._C, index, T.conjugate()",
   "    index = (slice(min(modes), max(modes) + 1),) * 2 if max(modes) - min(modes) + 1 == len(modes) else get_operator_index(modes)\n\n    state._C = connector.assign(\n        state._C, index, T.conjugate()"))
V("c07f-sorted-modes-in-gate-step", "C07", {"rule": "C07f", "contains": "sorted"},
  (GSS, "    index = get_operator_index(modes)\n\n    state._C = connector.assign(\n        state._C, index, T.conjugate()",
   "    index = get_operator_index(tuple(sorted(modes)))\n\n    state._C = connector.assign(\n        state._C, index, T.conjugate()"))
V("c07f-preserving-order-sensitive-shortcut", "C07", "silent",
  (GSS, "    index = get_operator_index(modes)\n\n    state._C = connector.assign(\n        state._C, index, T.conjugate()",
   "    if tuple(modes) == tuple(range(modes[0], modes[0] + len(modes))):\n        index = (slice(modes[0], modes[0] + len(modes)),) * 2\n    else:\n        index = get_operator_index(modes)\n\n    state._C = connector.assign(\n        state._C, index, T.conjugate()"))
V("c02d-draws-cached-by-count", "C02", {"rule": "C02d", "contains": "keyed-draw"},
  (SIMSTEPS, "    detected_counts_by_mode = [\n        rng.choice(\n            number_of_detectable_counts,\n            size=multiplicity,\n            p=probabilities,\n        )\n        for probabilities in probabilities_by_mode\n    ]\n",
   "    draws = {\n        count: rng.choice(number_of_detectable_counts, size=multiplicity, p=probabilities)\n        for count, probabilities in zip(actual_outcome, probabilities_by_mode)\n    }\n    detected_counts_by_mode = [draws[count] for count in actual_outcome]\n"))
V("c02d-preserving-explicit-loop", "C02", "silent",
  (SIMSTEPS, "    detected_counts_by_mode = [\n        rng.choice(\n            number_of_detectable_counts,\n            size=multiplicity,\n            p=probabilities,\n        )\n        for probabilities in probabilities_by_mode\n    ]\n",
   "    detected_counts_by_mode = []\n    for probabilities in probabilities_by_mode:\n        detected_counts_by_mode.append(\n            rng.choice(number_of_detectable_counts, size=multiplicity, p=probabilities)\n        )\n"))

# --- C15c Givens nulling
V("c15c-degenerate-angle-wrong", "C15", {"rule": "C15c", "contains": "degenerate-arm"},
  (CL, "        return np.pi / 2, 0.0\n", "        return np.pi / 4, 0.0\n"))
V("c15c-general-angle-halved", "C15", {"rule": "C15c", "contains": "general-arm"},
  (CL, "    theta = np.arctan(np.abs(r))\n", "    theta = np.arctan(np.abs(r)) / 2\n"))
V("c15c-partner-sign-dropped", "C15", {"rule": "C15c", "contains": "general-arm"},
  (CL, "        matrix_element_above = -U[modes[1], j]\n", "        matrix_element_above = U[modes[1], j]\n"))
V("c15c-preserving-degenerate-phase-free", "C15", "silent",
  (CL, "        return np.pi / 2, 0.0\n", "        return np.pi / 2, 1.0\n"))

# --- C09d sibling recurrences
HERM = "piquasso/_math/hermite.py"
JHERM = "piquasso/_math/jax/hermite.py"
V("c09d-numpy-bra-block-offset-dropped", "C09", {"rule": "C09d", "contains": "same-loops"},
  (HERM, "                * A[pivot, d + mode]\n", "                * A[pivot, mode]\n"))
V("c09d-jax-initial-term-offset", "C09", {"rule": "C09d", "contains": "same-init"},
  (JHERM, "    value = b[pivot] * density_matrix[row, col_lowered]\n", "    value = b[d + pivot] * density_matrix[row, col_lowered]\n"))
V("c09d-jax-divisor-of-wrong-state", "C09", {"rule": "C09d", "contains": "same-divisor"},
  (JHERM, "    return value / jnp.sqrt(ket[pivot].astype(real_dtype))", "    return value / jnp.sqrt(bra[pivot].astype(real_dtype))"))
V("c09d-preserving-renamed-local", "C09", "silent",
  (JHERM, "        lowered_col = lowered_indices[col_lowered, mode]\n", "        lc = lowered_indices[col_lowered, mode]\n"),
  (JHERM, "            * density_matrix[row, lowered_col]\n", "            * density_matrix[row, lc]\n"))

# --- C06 (claimed after the seeded round: three structural clauses)
INDICES = "piquasso/_math/indices.py"
FOCKPY = "piquasso/_math/fock.py"
V("c06a-array-index-term-shifted", "C06", {"rule": "C06a", "contains": "twin-of-get_index_in_fock_space"},
  (INDICES, "        sum_ += basis[..., -1 - i]\n        accumulator += arr_comb(sum_ + i, i + 1)\n\n    return accumulator\n\n\n@nb.njit(cache=True)\ndef get_index_in_fock_subspace(",
   "        sum_ += basis[..., -1 - i]\n        accumulator += arr_comb(sum_ + i + 1, i + 1)\n\n    return accumulator\n\n\n@nb.njit(cache=True)\ndef get_index_in_fock_subspace("))
V("c06a-dim-array-formula-differs", "C06", {"rule": "C06a", "contains": "elementwise"},
  (FOCKPY, "        ret[i] = comb(d + cutoff[i] - 1, d)\n", "        ret[i] = comb(d + cutoff[i], d)\n"))
V("c06b-sector-size-wrong", "C06", {"rule": "C06b", "contains": "sum-of-sector-sizes"},
  (FOCKPY, "    return comb(d + n - 1, n)\n", "    return comb(d + n, n)\n"))
V("c06b-cursor-not-advanced", "C06", {"rule": "C06b", "contains": "contiguous"},
  (FOCKPY, "        current_row += num_rows\n", "        current_row += 1\n"))
V("c06c-subspace-loop-too-short", "C06", {"rule": "C06c", "contains": "sector-offset"},
  (INDICES, "    for i in range(len(element) - 1):\n", "    for i in range(len(element) - 2):\n"))
V("c06b-preserving-equivalent-binomial", "C06", "silent",
  (FOCKPY, "    return comb(d + n - 1, n)\n", "    return comb(d + n - 1, d - 1)\n"))
V("c06a-preserving-renamed-accumulator", "C06", "silent",
  (INDICES, "def get_index_in_fock_space(element):\n    sum_ = 0\n    accumulator = 0\n    for i in range(len(element)):\n        sum_ += element[-1 - i]\n        accumulator += comb(sum_ + i, i + 1)\n\n    return accumulator\n",
   "def get_index_in_fock_space(element):\n    sum_ = 0\n    accumulator = 0\n    for i in range(len(element)):\n        sum_ += element[-1 - i]\n        accumulator += comb(sum_ + i, i + 1)\n\n    # the position of `element` in the basis\n    return accumulator\n"))
V("c06a-rewritten-twin-is-undecided-not-violation", "C06", {"exit": 2},
  (INDICES, "def get_index_in_fock_space_array(basis: np.ndarray) -> np.ndarray:\n    sum_ = np.zeros(shape=basis.shape[:-1], dtype=np.int32)\n    accumulator = np.zeros(shape=basis.shape[:-1], dtype=np.int32)\n\n    for i in range(basis.shape[-1]):\n        sum_ += basis[..., -1 - i]\n        accumulator += arr_comb(sum_ + i, i + 1)\n\n    return accumulator\n",
   "def get_index_in_fock_space_array(basis: np.ndarray) -> np.ndarray:\n    sums = np.cumsum(basis[..., ::-1], axis=-1)\n    accumulator = np.zeros(shape=basis.shape[:-1], dtype=np.int32)\n\n    for i in range(basis.shape[-1]):\n        accumulator += arr_comb(sums[..., i] + i, i + 1)\n\n    return accumulator\n"))

# --- C08b Hermiticity-preserving update forms of the mixed-Fock density matrix
GENSTEPS = "piquasso/_simulators/fock/general/simulation_steps.py"
FSTEPS = "piquasso/_simulators/fock/simulation_steps.py"
V("c08b-right-factor-not-adjoint", "C08", {"rule": "C08b", "contains": "congruence-matmul"},
  (GENSTEPS, "    state._density_matrix = operator @ state._density_matrix @ operator.transpose()\n", "    state._density_matrix = operator @ state._density_matrix @ operator\n", 2))
V("c08b-kerr-phase-not-antisymmetric", "C08", {"rule": "C08b", "contains": "phase-factor"},
  (GENSTEPS, "        coefficient = np.exp(1j * xi * (number**2 - dual_number**2))\n", "        coefficient = np.exp(1j * xi * (number**2 + dual_number**2))\n"))
V("c08b-einsum-same-sector-on-both-sides", "C08", {"rule": "C08b", "contains": "congruence-einsum"},
  (GENSTEPS, "                        subspace_transformations[bra].T.conj(),\n", "                        subspace_transformations[ket].T.conj(),\n"))
V("c08b-attenuator-weight-asymmetric", "C08", {"rule": "C08b", "contains": "attenuator"},
  (FSTEPS, "np.tan(theta) ** (2 * k) * np.sqrt(comb(n, k) * comb(m, k))", "np.tan(theta) ** (2 * k) * comb(n, k)"))
V("c08b-preserving-T-attribute", "C08", "silent",
  (GENSTEPS, "    state._density_matrix = operator @ state._density_matrix @ operator.transpose()\n", "    state._density_matrix = operator @ state._density_matrix @ operator.T\n", 2))
V("c19d-qubit-position-in-instruction", "C19", {"rule": "C19d", "contains": "instruction-local"},
  (DR, "        qubit_indices = [qc.find_bit(q).index for q in instr_qiskit.qubits]", "        qubit_indices = [instr_qiskit.qubits.index(q) for q in instr_qiskit.qubits]"))
V("c04d-pivot-tolerance", "C04", {"rule": "C04d", "contains": "floating-threshold"},
  ("src/pfaffian.cpp", "        if(element != 0) {", "        if(std::abs(element) > 1e-12) {"))
V("c04d-preserving-exact-test-rewritten", "C04", "silent",
  ("src/pfaffian.cpp", "        if(element != 0) {", "        if(!(element == 0)) {"))

# --- robustness of the added rules: value-preserving rewrites stay silent, unknown idioms are undecided (exit 2), never violations
V("c03c-preserving-float-wrapper", "C03", "silent",
  (PSTEPS, "            Branch(state=None, outcome=outcome, frequency=probability)\n", "            Branch(state=None, outcome=outcome, frequency=float(probability))\n"))
V("c03c-rounded-weight", "C03", {"rule": "C03c", "contains": "shots-none-weight"},
  (PSTEPS, "            Branch(state=None, outcome=outcome, frequency=probability)\n", "            Branch(state=None, outcome=outcome, frequency=round(probability, 12))\n"))
V("c19b-preserving-abs-bound-to-name", "C19", "silent",
  (DR, "    if not np.isclose(theta, 0.0):", "    magnitude = abs(theta)\n    if magnitude > 1e-12:"))
V("c18f-unknown-map-idiom-is-undecided", "C18", {"exit": 2},
  (PREPS2, "            for occupation_numbers, coefficient in other.params[\n                \"fock_amplitude_map\"\n            ].items():\n                coefficient *= other.params[\"coefficient\"]",
   "            for occupation_numbers, coefficient in dict(other.params[\"fock_amplitude_map\"]).items():\n                coefficient *= other.params[\"coefficient\"]"))
V("c07b-preserving-doc-tfrac", "C07", "silent",
  (GATES, "        S_{(c)} = \\frac{1}{2} \\begin{bmatrix}\n        e^{i \\phi_{ext} }", "        S_{(c)} = \\tfrac{1}{2} \\, \\begin{bmatrix}\n        e^{i \\phi_{ext} }"))
V("c09b-at-update-result-discarded", "C09", {"rule": "C09b", "contains": "at-update-result-discarded"},
  (JHERM, "    density_matrix = density_matrix.at[0, 0].set(c)\n", "    density_matrix.at[0, 0].set(c)\n"))

# --- after round 2 (first returns)
V("c14c-post-measurement-state-default-config", "C14", {"rule": "C14c", "contains": "config"},
  (GSS, "        d=len(evolved_r_A) // 2, connector=state._connector, config=state._config\n", "        d=len(evolved_r_A) // 2, connector=state._connector\n"))
V("c14c-preserving-config-copy", "C14", "silent",
  (GSS, "        d=len(evolved_r_A) // 2, connector=state._connector, config=state._config\n", "        d=len(evolved_r_A) // 2, connector=state._connector, config=state._config.copy()\n"))
V("c20e-slice-bound-truthiness", "C20", {"rule": "C20e", "contains": "truth-value"},
  (EXPR, "                stop = self._eval(sl.upper, x) if sl.upper else None\n", "                stop = (self._eval(sl.upper, x) or None) if sl.upper else None\n"))
V("c20e-preserving-is-not-none-test", "C20", "silent",
  (EXPR, "                stop = self._eval(sl.upper, x) if sl.upper else None\n", "                stop = self._eval(sl.upper, x) if sl.upper is not None else None\n"))
V("c14d-getter-applies-inverse-map", "C14", {"rule": "C14d", "contains": "conversion-from-wrong-ordering"},
  (GST, "        indices = xxpp_to_xpxp_indices(self.d)\n        return self.xxpp_covariance_matrix[np.ix_(indices, indices)]", "        indices = xpxp_to_xxpp_indices(self.d)\n        return self.xxpp_covariance_matrix[np.ix_(indices, indices)]"))
V("c14d-symplectic-form-of-other-ordering", "C14", {"rule": "C14d", "contains": "mixed-orderings"},
  (GST, "        second_order_moments = cov_xxpp / 2 + 0.5j * hbar * xp_symplectic_form(d)", "        second_order_moments = cov_xxpp / 2 + 0.5j * hbar * symplectic_form(d)"))
V("c14d-preserving-renamed-index-variable", "C14", "silent",
  (GST, "        indices = xxpp_to_xpxp_indices(self.d)\n        return self.xxpp_covariance_matrix[np.ix_(indices, indices)]", "        perm = xxpp_to_xpxp_indices(self.d)\n        return self.xxpp_covariance_matrix[np.ix_(perm, perm)]"))
V("c20f-condition-compared-with-true", "C20", {"rule": "C20f", "contains": "truthiness-only"},
  (INSTR, "            return self._condition(outcomes)\n", "            return self._condition(outcomes) is True\n"))
V("c20f-preserving-bool-wrapper", "C20", "silent",
  (INSTR, "            return self._condition(outcomes)\n", "            return bool(self._condition(outcomes))\n"))

# ------------------------------------------------------------------------------------------- C05
PSTATE = "piquasso/_simulators/passive/state.py"
PSTEPS = "piquasso/_simulators/passive/simulation_steps.py"
PPROB = "piquasso/_simulators/passive/probabilities.py"
# (a) feature honouring
V("c05a-marginal-shortcut-ignores-overlap", "C05", {"rule": "C05a", "contains": "generate_marginal_samples|_particle_overlap"},
  (PSTEPS, "        and not state.is_partially_distinguishable\n        and is_direct_marginal_sampling_cheaper(", "        and is_direct_marginal_sampling_cheaper("))
V("c05a-table-drops-overlap", "C05", {"rule": "C05a", "contains": "fock_probabilities|get_lossy_partially_distinguishable_detection_probabilities|_particle_overlap"},
  (PSTATE, "                particle_overlap=particle_overlap,\n", "                particle_overlap=1.0,\n"))
V("c05a-marginal-no-pd-guard", "C05", {"rule": "C05a", "contains": "get_marginal_fock_probabilities|_particle_overlap"},
  (PSTATE, "        if self.is_partially_distinguishable:\n            raise NotImplementedCalculation(\n                \"Marginal probability calculation is not implemented for partially \"\n                \"distinguishable states.\"\n            )\n", ""))
V("c05a-lossy-arm-on-flag", "C05", {"rule": "C05a", "contains": "generate_lossy_samples|_particle_overlap"},
  (PSTEPS, "    elif not state.is_partially_distinguishable:\n        samples = generate_lossy_samples(", "    elif state.is_lossy:\n        samples = generate_lossy_samples("))
V("c05a-detection-drops-postselection", "C05", {"rule": "C05a", "contains": "_postselections"},
  (PSTATE, "        full_occupation_number[active_modes,] = occupation_number\n        full_occupation_number[postselected_modes,] = postselected_photons\n",
   "        full_occupation_number = self._connector.fallback_np.asarray(occupation_number)\n"),
  (PSTATE, "        active_modes = self._connector.fallback_np.delete(\n            self._connector.fallback_np.arange(total_number_of_modes),\n            postselected_modes,\n        )\n\n        full_occupation_number = self._connector.fallback_np.zeros(\n            total_number_of_modes, dtype=int\n        )\n", ""))
V("c05a-state-vector-ignores-postselection", "C05", {"rule": "C05a", "contains": "calculate_state_vector|_postselections"},
  (PSTATE, "            postselect_data=(postselected_modes, postselected_photons),\n", "            postselect_data=((), ()),\n"))
V("c05a-guard-on-field", "C05", "silent",
  (PSTATE, "        if self.is_partially_distinguishable:\n            raise NotImplementedCalculation(\n                \"Marginal probability", "        if self._particle_overlap is not None:\n            raise NotImplementedCalculation(\n                \"Marginal probability"))
V("c05a-rename-locals", "C05", "silent",
  (PSTEPS, "    postselect_data = (\n        postselected_modes,\n        state._get_postselected_photons(),\n        config.max_sample_generation_trials,\n    )\n",
   "    postselected_photons = state._get_postselected_photons()\n    postselect_data = (\n        postselected_modes,\n        postselected_photons,\n        config.max_sample_generation_trials,\n    )\n"))
V("c05a-early-return-form", "C05", "silent",
  (PSTATE, "        if not self.is_partially_distinguishable:\n            if self.is_lossy:\n                return get_lossy_particle_number_probability(",
   "        indistinguishable = self._particle_overlap is None\n        if indistinguishable:\n            if self.is_lossy:\n                return get_lossy_particle_number_probability("))
# (b) post-selection bookkeeping
V("c05b-active-d-passed", "C05", {"rule": "C05b", "contains": "d - len(postselected_modes)"},
  (PSTATE, "                d=self.total_number_of_modes,\n", "                d=self.d,\n"))
V("c05b-reduced-cutoff-passed", "C05", {"rule": "C05b", "contains": "postselected_photon_sum"},
  (PSTATE, "                cutoff=self._config.cutoff + sum(postselected_photons),\n", "                cutoff=self._config.cutoff,\n"))
V("c05b-cutoff-not-reduced-anymore", "C05", {"rule": "C05b", "contains": "wrong direction"},
  (PSTATE, "        self._config.cutoff -= sum(photon_counts)\n", ""))
V("c05b-total-via-len", "C05", "silent",
  (PSTATE, "                d=self.total_number_of_modes,\n", "                d=len(self.interferometer),\n"))
V("c05b-sum-via-numpy", "C05", "silent",
  (PSTATE, "                cutoff=self._config.cutoff + sum(postselected_photons),\n",
   "                cutoff=self._config.cutoff + int(np.sum(postselected_photons)),\n"))
# (c) conservation of the coefficient-extraction kernels
V("c05c-detected-kernel-no-conj", "C05", {"rule": "C05c", "contains": "conservation"},
  (PPROB, "        B_detected.append(G * np.outer(vector, np.conj(vector)))", "        B_detected.append(G * np.outer(vector, vector))"))
V("c05c-loss-kernel-plus", "C05", {"rule": "C05c", "contains": "conservation"},
  (PPROB, "        np.identity(input_number_of_modes, dtype=complex_dtype) - np.conj(T).T @ T", "        np.identity(input_number_of_modes, dtype=complex_dtype) + np.conj(T).T @ T"))
V("c05c-repaired-kernel", "C05", "silent",
  (PPROB, "        np.identity(input_number_of_modes, dtype=complex_dtype) - np.conj(T).T @ T", "        np.identity(input_number_of_modes, dtype=complex_dtype) - T.T @ np.conj(T)"))
V("c05c-repaired-other-side", "C05", "silent",   # the other consistent repair: conj(v) v^T pairs with the plain Gram matrix and with I - T^dagger T
  (PPROB, "        B_detected.append(G * np.outer(vector, np.conj(vector)))", "        B_detected.append(G * np.outer(np.conj(vector), vector))"),
  (PPROB, "        G = np.conj(particle_overlap)\n", "        G = particle_overlap\n"))
V("c05g-repaired-other-side-with-the-conjugate-gram", "C05", {"rule": "C05g", "contains": "get_lossy_partially_distinguishable_detection_probabilities"},
  (PPROB, "        B_detected.append(G * np.outer(vector, np.conj(vector)))", "        B_detected.append(G * np.outer(np.conj(vector), vector))"))
V("c05c-unknown-construction", "C05", {"exit": 2},
  (PPROB, "        B_detected.append(G * np.outer(vector, np.conj(vector)))", "        B_detected.append(G * np.einsum('i,j->ij', vector, np.conj(vector)))"))
V("c05a-helper-extracted-guard-in-caller", "C05", "silent",
  (PSTEPS, "    elif not state.is_partially_distinguishable:\n        samples = generate_lossy_samples(\n            **common_kwargs,\n            calculate_permanent_laplace=state._connector.permanent_laplace,\n        )\n",
   "    elif not state.is_partially_distinguishable:\n        samples = _sample_lossy(state, common_kwargs)\n"),
  (PSTEPS, "def _create_branches_after_marginal_particle_number_measurement(",
   "def _sample_lossy(state: PassiveState, common_kwargs: dict):\n    return generate_lossy_samples(\n        **common_kwargs,\n        calculate_permanent_laplace=state._connector.permanent_laplace,\n    )\n\n\ndef _create_branches_after_marginal_particle_number_measurement("))
V("c05a-helper-extracted-guard-lost", "C05", {"rule": "C05a", "contains": "_sample_lossy|generate_lossy_samples|_particle_overlap"},
  (PSTEPS, "    elif not state.is_partially_distinguishable:\n        samples = generate_lossy_samples(\n            **common_kwargs,\n            calculate_permanent_laplace=state._connector.permanent_laplace,\n        )\n",
   "    elif state.is_lossy:\n        samples = _sample_lossy(state, common_kwargs)\n"),
  (PSTEPS, "def _create_branches_after_marginal_particle_number_measurement(",
   "def _sample_lossy(state: PassiveState, common_kwargs: dict):\n    return generate_lossy_samples(\n        **common_kwargs,\n        calculate_permanent_laplace=state._connector.permanent_laplace,\n    )\n\n\ndef _create_branches_after_marginal_particle_number_measurement("))

# ------------------------------------------------------------------------------------------- C17
FFSTEPS = "piquasso/fermionic/fock/simulation_steps.py"
FGSTEPS = "piquasso/fermionic/gaussian/simulation_steps.py"
_CONSEC = "    if state._config.validate and not are_modes_consecutive(modes):\n        raise InvalidParameter(f\"Specified modes must be consecutive: modes={modes}\")\n\n"
V("c17a-isingxx-guard-removed", "C17", {"rule": "C17a", "contains": "ising_XX"},
  (FFSTEPS, "    modes = instruction.modes\n\n" + _CONSEC + "    d = state._d\n    cutoff = state._config.cutoff\n\n    cos_phi", "    modes = instruction.modes\n\n    d = state._d\n    cutoff = state._config.cutoff\n\n    cos_phi"))
V("c17a-squeezing2-guard-removed", "C17", {"rule": "C17a", "contains": "squeezing2"},
  (FFSTEPS, "    fallback_np = connector.fallback_np\n\n" + _CONSEC + "    r = instruction.params[\"r\"]", "    fallback_np = connector.fallback_np\n\n    r = instruction.params[\"r\"]"))
V("c17a-guard-after-write", "C17", {"rule": "C17a", "contains": "passive_linear"},
  (FFSTEPS, "    modes = instruction.modes\n\n" + _CONSEC + "    unitary = instruction._get_passive_block(connector, config)\n", "    modes = instruction.modes\n\n    unitary = instruction._get_passive_block(connector, config)\n"),
  (FFSTEPS, "        config.cutoff,\n    )\n\n    return [Branch(state=state)]\n\n\ndef squeezing2(", "        config.cutoff,\n    )\n\n" + _CONSEC + "    return [Branch(state=state)]\n\n\ndef squeezing2("))
V("c17a-controlled-phase-not-diagonal", "C17", {"rule": "C17a", "contains": "controlled_phase"},
  (FFSTEPS, "        state._state_vector, indices, rotation * state._state_vector[indices]\n", "        state._state_vector, indices, rotation * state._state_vector[indices[::-1]]\n"))
V("c17a-nested-validate-form", "C17", "silent",
  (FFSTEPS, "    fallback_np = connector.fallback_np\n\n" + _CONSEC + "    r = instruction.params[\"r\"]",
   "    fallback_np = connector.fallback_np\n\n    if state._config.validate:\n        if not are_modes_consecutive(modes):\n            raise InvalidParameter(f\"Specified modes must be consecutive: modes={modes}\")\n\n    r = instruction.params[\"r\"]"))
V("c17b-d-update-no-transpose", "C17", {"rule": "C17b", "contains": "_D"},
  (FGSTEPS, "state._D[select_columns] @ unitary.T\n", "state._D[select_columns] @ unitary\n"))
V("c17b-e-update-not-conjugated", "C17", {"rule": "C17b", "contains": "_E"},
  (FGSTEPS, "state._E[select_columns] @ unitary.T.conj()\n", "state._E[select_columns] @ unitary.T\n"))
V("c17b-rows-columns-swapped", "C17", {"rule": "C17b", "contains": "selection"},
  (FGSTEPS, "        state._E, select_rows, unitary.conj() @ state._E[select_rows]\n", "        state._E, select_columns, unitary.conj() @ state._E[select_rows]\n"))
V("c17b-np-conj-form", "C17", "silent",
  (FGSTEPS, "        state._E, select_rows, unitary.conj() @ state._E[select_rows]\n", "        state._E, select_rows, connector.np.conj(unitary) @ state._E[select_rows]\n"))
V("c17b-rows-first", "C17", "silent",
  (FGSTEPS, "    state._D = connector.assign(\n        state._D, select_columns, state._D[select_columns] @ unitary.T\n    )\n    state._D = connector.assign(\n        state._D, select_rows, unitary.conj() @ state._D[modes, :]\n    )\n",
   "    state._D = connector.assign(\n        state._D, select_rows, unitary.conj() @ state._D[modes, :]\n    )\n    state._D = connector.assign(\n        state._D, select_columns, state._D[select_columns] @ unitary.T\n    )\n"))
V("c17c-congruence-no-transpose", "C17", {"rule": "C17c", "contains": "covariance"},
  (FGSTEPS, "    state.covariance_matrix = SO @ state.covariance_matrix @ SO.T\n", "    state.covariance_matrix = SO @ state.covariance_matrix @ SO\n"))
V("c17c-right-assoc", "C17", "silent",
  (FGSTEPS, "    state.covariance_matrix = SO @ state.covariance_matrix @ SO.T\n", "    state.covariance_matrix = SO @ (state.covariance_matrix @ SO.T)\n"))
FFS = "piquasso/fermionic/fock/simulation_steps.py"
NPCONN = "piquasso/_simulators/connectors/numpy_/connections.py"
GENCONN = "piquasso/_simulators/connectors/connections.py"
V("c17e-squeezing2-jw-sign", "C17", {"rule": "C17e", "contains": "squeezing2"},
  (FFS, "            if j < size:\n                state._state_vector = connector.assign(\n                    state._state_vector, ((i, j),), U @ state._state_vector[(i, j),]\n                )",
   "            if j < size:\n                sign = (-1) ** int(index[: modes[0]].sum())\n                signed_U = U * np.array([[1, sign], [sign, 1]])\n                state._state_vector = connector.assign(\n                    state._state_vector, ((i, j),), signed_U @ state._state_vector[(i, j),]\n                )"))
V("c17e-isingxx-index-dependent-phase", "C17", {"rule": "C17e", "contains": "ising_XX"},
  (FFS, "        final = cos_phi * initial + i_sin_phi * np.flip(initial)", "        final = cos_phi * initial + (i_sin_phi * (-1) ** int(index[0] % 2)) * np.flip(initial)"))
V("c17e-coefficient-local-in-loop", "C17", "silent",
  (FFS, "                state._state_vector = connector.assign(\n                    state._state_vector, i, U[0, 0] * state._state_vector[i]\n                )",
   "                u00 = U[0, 0]\n                state._state_vector = connector.assign(\n                    state._state_vector, i, u00 * state._state_vector[i]\n                )"))
V("c17f-full-subspace-identity", "C17", {"rule": "C17f", "contains": "numpy_"},
  (NPCONN, "    for n in range(2, cutoff):\n        laplace_indices, deleted_indices = (",
   "    for n in range(2, cutoff):\n        if n == d:\n            subspace_representations.append(np.array([[1.0]], dtype=matrix.dtype))\n            continue\n        laplace_indices, deleted_indices = (", 1))
V("c17f-recurrence-drops-previous", "C17", {"rule": "C17f", "contains": "connections"},
  (GENCONN, "                        * previous_representation[deleted_row_idx, deleted_col_idx]\n                    )\n\n                representation = connector.assign(",
   "                    )\n\n                representation = connector.assign(", 1))
V("c17f-one-particle-via-local", "C17", "silent",
  (NPCONN, "    subspace_representations.append(matrix)\n", "    one_particle = matrix\n    subspace_representations.append(one_particle)\n", 1))
V("c17e-sign-selected-by-occupation-test", "C17", {"rule": "C17e", "contains": "squeezing2"},
  (FFS, "            if j < size:\n                state._state_vector = connector.assign(\n                    state._state_vector, ((i, j),), U @ state._state_vector[(i, j),]\n                )",
   "            if j < size:\n                if fallback_np.sum(index[: modes[0]]) % 2 == 1:\n                    pair_unitary = np.array([[1.0, -1.0], [-1.0, 1.0]]) * U\n                else:\n                    pair_unitary = U\n                state._state_vector = connector.assign(\n                    state._state_vector, ((i, j),), pair_unitary @ state._state_vector[(i, j),]\n                )"))
FGSTEPS = "piquasso/fermionic/gaussian/simulation_steps.py"
V("c17g-samples-from-normal-block-only", "C17", {"rule": "C17g", "contains": "get_probability"},
  (FGSTEPS, "        reduced_state = state.reduced(subspace_modes)\n\n        return float(\n            reduced_state.get_particle_detection_probability(\n                fallback_np.array(occupation_numbers)\n            )\n        )",
   "        index = fallback_np.ix_(subspace_modes, subspace_modes)\n        reduced_D = state._D[index]\n        occupied = fallback_np.array(occupation_numbers).reshape(-1, 1)\n        kernel = occupied * reduced_D + (1 - occupied) * (fallback_np.identity(len(subspace_modes)) - reduced_D)\n        return float(fallback_np.real(fallback_np.linalg.det(kernel)))"))
V("c11h-module-cache-get-form-omits-cutoff", "C11", {"rule": "C11h", "contains": "module cache"},
  (NPCONN, "@nb.njit(cache=True)\ndef calculate_interferometer_on_fermionic_fock_space(matrix, cutoff):",
   "_representations_cache: dict = {}\n\n\ndef calculate_interferometer_on_fermionic_fock_space(matrix, cutoff):\n    key = (matrix.shape, matrix.tobytes())\n    representations = _representations_cache.get(key)\n    if representations is None:\n        representations = _calculate_representations(matrix, cutoff)\n        _representations_cache[key] = representations\n    return representations\n\n\n@nb.njit(cache=True)\ndef _calculate_representations(matrix, cutoff):"))
V("c17g-passive-update-split-per-block", "C17", {"exit": 2},  # C17g stays silent; C17b cannot follow the extracted helper: undecided, never a violation
 
  (FGSTEPS, "    state._E = connector.assign(\n        state._E, select_columns, state._E[select_columns] @ unitary.T.conj()\n    )\n    state._E = connector.assign(\n        state._E, select_rows, unitary.conj() @ state._E[select_rows]\n    )",
   "    _update_pairing_block(state, connector, select_columns, select_rows, unitary)"),
  (FGSTEPS, "def passive_linear_gate(", "def _update_pairing_block(state, connector, select_columns, select_rows, unitary):\n    state._E = connector.assign(\n        state._E, select_columns, state._E[select_columns] @ unitary.T.conj()\n    )\n    state._E = connector.assign(\n        state._E, select_rows, unitary.conj() @ state._E[select_rows]\n    )\n\n\ndef passive_linear_gate("))
V("c17d-amplitude-map-unchecked", "C17", {"rule": "C17d", "contains": "state_vector"},
  (FFSTEPS, "                if len(occ_numbers) != state._d or not all_zero_or_one(occ_numbers):", "                if len(occ_numbers) != state._d:"))
V("c17d-gaussian-unchecked", "C17", {"rule": "C17d", "contains": "state_vector"},
  (FGSTEPS, "    if state._config.validate and not all_zero_or_one(occupation_numbers):\n        raise InvalidParameter(\n            f\"Invalid initial state specified: instruction={instruction}\"\n        )\n\n    state._set_occupation_numbers", "    state._set_occupation_numbers"))

# ------------------------------------------------------------------------------------------- C10
GRADS = "piquasso/_math/gradients.py"
GATEM = "piquasso/_math/gate_matrices.py"
PURESTEPS = "piquasso/_simulators/fock/pure/simulation_steps/__init__.py"
PASSLIN = "piquasso/_simulators/fock/pure/simulation_steps/passive_linear.py"
V("c10a-displacement-r-sign", "C10", {"rule": "C10a", "contains": "displacement_gradient|d/dr"},
  (GRADS, "        r_grad = -r * transformation + row_term - col_term\n", "        r_grad = -r * transformation + row_term + col_term\n"))
V("c10a-displacement-phi-missing-r", "C10", {"rule": "C10a", "contains": "displacement_gradient|d/dphi"},
  (GRADS, "        phi_grad = (row_term + col_term) * r * 1j\n", "        phi_grad = (row_term + col_term) * 1j\n"))
V("c10a-squeezing-prefactor", "C10", {"rule": "C10a", "contains": "squeezing_gradient|d/dr"},
  (GRADS, "            (-tanhr * 0.5) * transformation\n", "            (-tanhr) * transformation\n"))
V("c10a-squeezing-middle-term-sech2", "C10", {"rule": "C10a", "contains": "squeezing_gradient|d/dr"},
  (GRADS, "            - (sechr * tanhr)\n", "            - (sechr**2 * tanhr)\n"))
V("c10a-squeezing-roll-by-one", "C10", {"rule": "C10a", "contains": "squeezing_gradient"},
  (GRADS, "        row_rolled_transformation = np.roll(transformation, 2, axis=0)\n", "        row_rolled_transformation = np.roll(transformation, 1, axis=0)\n"))
V("c10a-squeezing-phi-sign", "C10", {"rule": "C10a", "contains": "squeezing_gradient|d/dphi"},
  (GRADS, "        phi_grad = -0.5j * tanhr * (row_term + col_term)\n", "        phi_grad = -0.5j * tanhr * (row_term - col_term)\n"))
V("c10a-cotangents-swapped", "C10", {"rule": "C10a", "contains": "displacement_gradient|d/d"},
  (GRADS, "        return (r_grad_sum, phi_grad_sum)\n\n    return displacement_matrix_gradient", "        return (phi_grad_sum, r_grad_sum)\n\n    return displacement_matrix_gradient"))
V("c10a-forward-convention-changed", "C10", {"rule": "C10a", "contains": "convention"},
  (GATEM, "    displacement = r * np.exp(1j * phi)\n", "    displacement = r * np.exp(-1j * phi)\n"))
V("c10d-static-arm-no-conj", "C10", {"rule": "C10d", "contains": "pairing"},
  (GRADS, "            r_grad_sum = tf.constant(np.real(np.sum(upstream * np.conj(r_grad))))\n            phi_grad_sum = tf.constant(np.real(np.sum(upstream * np.conj(phi_grad))))\n        else:\n            r_grad_sum = tf.math.real(tf.reduce_sum(upstream * tf.math.conj(r_grad)))\n            phi_grad_sum = tf.math.real(\n                tf.reduce_sum(upstream * tf.math.conj(phi_grad))\n            )\n\n        return (r_grad_sum, phi_grad_sum)\n\n    return displacement_matrix_gradient",
   "            r_grad_sum = tf.constant(np.real(np.sum(upstream * r_grad)))\n            phi_grad_sum = tf.constant(np.real(np.sum(upstream * np.conj(phi_grad))))\n        else:\n            r_grad_sum = tf.math.real(tf.reduce_sum(upstream * tf.math.conj(r_grad)))\n            phi_grad_sum = tf.math.real(\n                tf.reduce_sum(upstream * tf.math.conj(phi_grad))\n            )\n\n        return (r_grad_sum, phi_grad_sum)\n\n    return displacement_matrix_gradient"))
V("c10a-terms-reordered", "C10", "silent",
  (GRADS, "        r_grad = -r * transformation + row_term - col_term\n", "        r_grad = row_term - col_term - r * transformation\n"))
V("c10a-half-first", "C10", "silent",
  (GRADS, "            (-tanhr * 0.5) * transformation\n", "            (-0.5 * tanhr) * transformation\n"))
V("c10a-sech-inline", "C10", "silent",
  (GRADS, "            - (sechr**2 * 0.5) * (row_term - col_term)\n", "            - (0.5 / np.cosh(r) ** 2) * (row_term - col_term)\n"))
V("c10b-batch-spec-transposed", "C10", {"rule": "C10b", "contains": "vjp wrt matrix"},
  (PURESTEPS, "        matrix_einsum_string = \"ijl,kjl->ki\" if is_batch else \"ij,kj->ki\"\n", "        matrix_einsum_string = \"ijl,kjl->ik\" if is_batch else \"ij,kj->ki\"\n"))
V("c10b-matrix-not-conjugated", "C10", {"rule": "C10b", "contains": "vjp wrt state_vector"},
  (PURESTEPS, "        conjugated_matrix = np.conj(matrix)\n", "        conjugated_matrix = matrix\n"))
V("c10b-passive-state-spec", "C10", {"rule": "C10b", "contains": "passive_gate_gradient_function|vjp wrt state_vector"},
  (PASSLIN, "        initial_state_einsum_string = \"ji,jkl->ikl\" if is_batch else \"ji,jk->ik\"\n", "        initial_state_einsum_string = \"ij,jkl->ikl\" if is_batch else \"ij,jk->ik\"\n"))
V("c10c-passive-cotangents-swapped", "C10", {"rule": "C10c", "contains": "cotangent order"},
  (PASSLIN, "        return gradient_by_initial_state, gradient_by_matrix\n", "        return gradient_by_matrix, gradient_by_initial_state\n"))
V("c10b-letters-renamed", "C10", "silent",
  (PURESTEPS, "        initial_state_einsum_string = \"ji,jkl->ikl\" if is_batch else \"ji,jk->ik\"\n", "        initial_state_einsum_string = \"ab,acd->bcd\" if is_batch else \"ab,ac->bc\"\n"))
V("c10b-conjugate-spelling", "C10", "silent",
  (PURESTEPS, "        conjugated_matrix = np.conj(matrix)\n", "        conjugated_matrix = np.conjugate(matrix)\n"))

# --- C14d doubling layouts (pairwise vs block)
GSTATE2 = "piquasso/_simulators/gaussian/state.py"
V("c14d-dphi-pairwise-method", "C14", {"rule": "C14d", "contains": "get_phaseshifter_expectation_value|mixed-orderings"},
  (GSTATE2, "        D_phi = np.diag(np.concatenate([cot_half_angles, cot_half_angles]))\n", "        D_phi = np.diag(cot_half_angles.repeat(2))\n"))
V("c14d-dphi-pairwise-function", "C14", {"rule": "C14d", "contains": "get_phaseshifter_expectation_value|mixed-orderings"},
  (GSTATE2, "        D_phi = np.diag(np.concatenate([cot_half_angles, cot_half_angles]))\n", "        D_phi = np.diag(np.repeat(cot_half_angles, 2))\n"))
V("c14d-traced-arm-pairwise", "C14", {"rule": "C14d", "contains": "get_phaseshifter_expectation_value|mixed-orderings"},
  (GSTATE2, "            one_minus_z = np.concatenate([1 - z, 1 - z])\n", "            one_minus_z = np.repeat(1 - z, 2)\n"))
V("c14d-dphi-tile", "C14", "silent",
  (GSTATE2, "        D_phi = np.diag(np.concatenate([cot_half_angles, cot_half_angles]))\n", "        D_phi = np.diag(np.tile(cot_half_angles, 2))\n"))
V("c14d-purify-concatenate-literal", "C14", "silent",
  (GSTATE2, "        purification.xpxp_mean_vector = np.concatenate([mean] * 2)\n", "        purification.xpxp_mean_vector = np.concatenate([mean, mean])\n"))

# --- C13g accumulator protocol
GATEM2 = "piquasso/_math/gate_matrices.py"
V("c13g-second-row-unguarded", "C13", {"rule": "C13g", "contains": "write index 1"},
  (GATEM2, "    if cutoff == 1:\n        # NOTE: There is no second row to write, and accumulators of fixed size (e.g.,\n        # `tf.TensorArray`) and `tf.range(2, 1)` would raise.\n        return np.sqrt(sechr) * connector.transpose(\n            connector.stack_accumulator(matrix)\n        )\n\n", ""))
V("c13g-displacement-range-from-two", "C13", {"rule": "C13g", "contains": "connector.range(2, cutoff)"},
  (GATEM2, "    for i in connector.range(1, cutoff):\n", "    for i in connector.range(2, cutoff):\n"))
V("c13g-guard-as-nesting", "C13", "silent",
  (GATEM2, "    matrix = connector.write_to_accumulator(matrix, 1, second_row)\n", "    if cutoff >= 2:\n        matrix = connector.write_to_accumulator(matrix, 1, second_row)\n"))
V("c13g-guard-less-than-two", "C13", "silent",
  (GATEM2, "    if cutoff == 1:\n        # NOTE: There is no second row", "    if cutoff < 2:\n        # NOTE: There is no second row"))

# --- round 3 (seeded): return-based order-insensitive shortcut, sequential positional edits, index accumulator dtype
PROGRAMF = "piquasso/api/program.py"
FOCKSTEPS = "piquasso/_simulators/fock/simulation_steps.py"
INDICES = "piquasso/_math/indices.py"
V("c16-map-modes-length-shortcut", "C16", {"rule": "C16a", "contains": "_map_modes"},
  (PROGRAMF, "        if len(instruction.modes) == 0:\n            return register.modes\n", "        if len(instruction.modes) in (0, len(register.modes)):\n            return register.modes\n"))
V("c16-map-modes-emptiness-form", "C16", "silent",
  (PROGRAMF, "        if len(instruction.modes) == 0:\n            return register.modes\n", "        if not instruction.modes:\n            return register.modes\n"))
V("c16-sequential-insert", "C16", {"rule": "C16b", "contains": "sequential insert"},
  (FOCKSTEPS, "    basis[:, modes] = basis_vector\n", "    for mode, occupation_number in zip(modes, basis_vector):\n        basis = np.insert(basis, mode, occupation_number, axis=1)\n"))
V("c16-remap-through-set", "C16", {"rule": "C16b", "contains": "_remap_modes"},
  ("piquasso/api/simulator.py", "        return tuple(active_modes.index(mode) for mode in modes_to_remap)\n",
   "        wanted = set(modes_to_remap)\n        return tuple(i for i, mode in enumerate(active_modes) if mode in wanted)\n"))
V("c06d-accumulator-input-dtype", "C06", {"rule": "C06d", "contains": "accumulator dtype"},
  (INDICES, "    sum_ = np.zeros(shape=basis.shape[:-1], dtype=np.int32)\n    accumulator = np.zeros(shape=basis.shape[:-1], dtype=np.int32)\n\n    for i in range(basis.shape[-1]):",
   "    sum_ = np.zeros(shape=basis.shape[:-1], dtype=basis.dtype)\n    accumulator = np.zeros(shape=basis.shape[:-1], dtype=basis.dtype)\n\n    for i in range(basis.shape[-1]):"))
V("c06d-accumulator-int64", "C06", "silent",
  (INDICES, "    sum_ = np.zeros(shape=basis.shape[:-1], dtype=np.int32)\n    accumulator = np.zeros(shape=basis.shape[:-1], dtype=np.int32)\n\n    for i in range(basis.shape[-1]):",
   "    sum_ = np.zeros(shape=basis.shape[:-1], dtype=np.int64)\n    accumulator = np.zeros(shape=basis.shape[:-1], dtype=np.int64)\n\n    for i in range(basis.shape[-1]):"))

# ------------------------------------------------------------------------------------------- C01
PURESTEPS1 = "piquasso/_simulators/fock/pure/simulation_steps/__init__.py"
GENSTEPS1 = "piquasso/_simulators/fock/general/simulation_steps.py"
PSTEPS1 = "piquasso/_simulators/passive/simulation_steps.py"
GSTEPS1 = "piquasso/_simulators/gaussian/simulation_steps.py"
GATES1 = "piquasso/instructions/gates.py"
V("c01a-passive-kerr-normal-ordered", "C01", {"rule": "C01a", "contains": "passive.simulation_steps:kerr"},
  (PSTEPS1, "            1j * xi * state._occupation_numbers[i][mode] ** 2\n",
   "            1j * xi * state._occupation_numbers[i][mode] * (state._occupation_numbers[i][mode] - 1)\n"))
V("c01a-mixed-cross-kerr-sign", "C01", {"rule": "C01a", "contains": "general.simulation_steps:cross_kerr"},
  (GENSTEPS1, "                basis[modes[0]] * basis[modes[1]]\n                - dual_basis[modes[0]] * dual_basis[modes[1]]\n",
   "                basis[modes[0]] * basis[modes[1]]\n                + dual_basis[modes[0]] * dual_basis[modes[1]]\n"))
V("c01a-mixed-kerr-linear", "C01", {"rule": "C01a", "contains": "general.simulation_steps:kerr"},
  (GENSTEPS1, "        coefficient = np.exp(1j * xi * (number**2 - dual_number**2))\n", "        coefficient = np.exp(1j * xi * (number - dual_number) ** 2)\n"))
V("c01b-squeezing-active-sign", "C01", {"rule": "C01b", "contains": "Squeezing|active"},
  (GATES1, "        return np.array([[-np.sinh(r) * np.exp(1j * phi)]], dtype=config.complex_dtype)", "        return np.array([[np.sinh(r) * np.exp(1j * phi)]], dtype=config.complex_dtype)"))
V("c01b-gaussian-displacement-conjugated", "C01", {"rule": "C01b", "contains": "displacement"},
  (GSTEPS1, "        state._m, indices, state._m[indices] + r * np.exp(1j * phi)\n", "        state._m, indices, state._m[indices] + r * np.exp(-1j * phi)\n"))
V("c01c-linear-block-not-conjugated", "C01", {"rule": "C01c", "contains": "pure.simulation_steps:linear"},
  (PURESTEPS1, "            [np.conj(active_block), np.conj(passive_block)],\n        ],\n    )\n\n    unitary_last", "            [active_block, np.conj(passive_block)],\n        ],\n    )\n\n    unitary_last"))
V("c01a-pure-kerr-local-name", "C01", "silent",
  (PURESTEPS1, "    coefficients = np.exp(1j * xi * np.array([basis[mode] ** 2 for basis in space]))\n",
   "    squares = np.array([basis[mode] ** 2 for basis in space])\n    coefficients = np.exp(1j * xi * squares)\n"))
V("c01a-passive-kerr-factor-order", "C01", "silent",
  (PSTEPS1, "            1j * xi * state._occupation_numbers[i][mode] ** 2\n", "            xi * 1j * state._occupation_numbers[i][mode] ** 2\n"))
V("c01b-displacement-euler-form", "C01", "silent",
  (GSTEPS1, "        state._m, indices, state._m[indices] + r * np.exp(1j * phi)\n", "        state._m, indices, state._m[indices] + r * (np.cos(phi) + 1j * np.sin(phi))\n"))

# --- C05d index spaces, C03d normalised projection
PSTEPS2 = "piquasso/_simulators/passive/simulation_steps.py"
V("c05d-active-positions-to-marginals", "C05", {"rule": "C05d", "contains": "get_marginal_fock_probabilities"},
  (PSTEPS2, "            probabilities = state.get_marginal_fock_probabilities(\n                modes=map_to_original_modes(modes, postselected_modes)\n            )\n",
   "            probabilities = state.get_marginal_fock_probabilities(modes=modes)\n"))
V("c05d-original-labels-to-postselection", "C05", {"rule": "C05d", "contains": "_copy_with_postselection"},
  (PSTEPS2, "            probabilities = state.get_marginal_fock_probabilities(\n                modes=map_to_original_modes(modes, postselected_modes)\n            )\n",
   "            modes = map_to_original_modes(modes, postselected_modes)\n            probabilities = state.get_marginal_fock_probabilities(modes=modes)\n"))
V("c05d-conversion-bound-first", "C05", "silent",
  (PSTEPS2, "            probabilities = state.get_marginal_fock_probabilities(\n                modes=map_to_original_modes(modes, postselected_modes)\n            )\n",
   "            labels = map_to_original_modes(modes, postselected_modes)\n            probabilities = state.get_marginal_fock_probabilities(modes=labels)\n"))
PUREUTILS = "piquasso/_simulators/fock/pure/simulation_steps/utils.py"
V("c03d-pure-projection-not-normalised", "C03", {"rule": "C03d", "contains": "fock.pure.simulation_steps:particle_number_measurement"},
  (PURESTEPS1, "            modes=instruction.modes,\n            normalization=normalization,\n        )\n\n        branch = Branch(new_state, sample, frequency=frequency)",
   "            modes=instruction.modes,\n        )\n\n        branch = Branch(new_state, sample, frequency=frequency)"),
  (PUREUTILS, "    normalization: float,\n) -> PureFockState:\n    remaining_state_vector = normalization * _get_remaining_state_vector(", ") -> PureFockState:\n    remaining_state_vector = _get_remaining_state_vector("))

# --- round 3b: renumbering loops, mode masks, python kernel thresholds, worker-count reads
SAMPLING = "piquasso/_simulators/passive/sampling.py"
HESS = "piquasso/_math/hafnian/hessenberg.py"
PLAINH = "piquasso/_math/hafnian/plain_hafnian.py"
V("c16c-renumbering-unsorted", "C16", {"rule": "C16c", "contains": "map_to_original_modes"},
  (SAMPLING, "    for postselected in sorted(postselected_modes):\n", "    for postselected in postselected_modes:\n"))
V("c16d-store-through-mode-mask", "C16", {"rule": "C16d", "contains": "get_projection_operator_indices"},
  (FOCKSTEPS, "    basis[:, modes] = basis_vector\n", "    is_projected = np.zeros(d, dtype=bool)\n    is_projected[modes,] = True\n    basis[:, is_projected] = basis_vector\n"))
V("c16d-mask-for-membership-only", "C16", "silent",
  (FOCKSTEPS, "    basis[:, modes] = basis_vector\n", "    is_projected = np.zeros(d, dtype=bool)\n    is_projected[modes,] = True\n    assert is_projected.sum() == len(modes)\n    basis[:, modes] = basis_vector\n"))
V("c04d-python-absolute-threshold", "C04", {"rule": "C04d", "contains": "_get_reflection_vector"},
  (HESS, "        reflect_vector[0] += sigma\n\n    if norm_v_sqr == 0.0:\n", "        reflect_vector[0] += sigma\n\n    if norm_v_sqr < 1e-12:\n"))
V("c04d-python-threshold-via-constant", "C04", {"rule": "C04d", "contains": "_get_reflection_vector"},
  (HESS, "        reflect_vector[0] += sigma\n\n    if norm_v_sqr == 0.0:\n", "        reflect_vector[0] += sigma\n\n    if norm_v_sqr < EPSILON:\n"),
  (HESS, "@nb.njit(cache=True)\ndef _get_reflection_vector(input):", "EPSILON = 1e-12\n\n\n@nb.njit(cache=True)\ndef _get_reflection_vector(input):"))
V("c04d-python-scale-guard-constant-renamed", "C04", "silent",
  (PLAINH, "    if scale_factor < 1e-8:\n        return matrix, 1.0\n", "    if scale_factor < 1e-10:\n        return matrix, 1.0\n"))
V("c11g-partition-by-worker-count", "C11", {"rule": "C11g", "contains": "worker count read"},
  (PLAINH, "    n = sum(occupation_numbers)\n\n    if n == 0:\n        return 1.0\n", "    n = sum(occupation_numbers)\n    jobs = nb.get_num_threads()\n\n    if n == 0:\n        return 1.0 * (jobs > 0)\n", 1))

# --- C03e outcome keys accumulate
RESULTF = "piquasso/api/result.py"
V("c03e-counts-overwritten", "C03", {"rule": "C03e", "contains": "get_counts"},
  (RESULTF, "            ret[branch.outcome] = ret.get(branch.outcome, 0) + int(\n                branch.frequency * shots\n            )\n", "            ret[branch.outcome] = int(branch.frequency * shots)\n"))
V("c03e-counts-augmented-form", "C03", "silent",
  (RESULTF, "            ret[branch.outcome] = ret.get(branch.outcome, 0) + int(\n                branch.frequency * shots\n            )\n", "            ret.setdefault(branch.outcome, 0)\n            ret[branch.outcome] += int(branch.frequency * shots)\n"))
V("c03e-outcome-map-comprehension", "C03", {"rule": "C03e", "contains": "outcome_map"},
  (RESULTF, "        ret: dict = {}\n\n        for branch in self.branches:\n            # NOTE: Several branches may carry the same outcome (e.g., the Gaussian\n            # measurements return one branch per sample), hence the frequencies add up.\n            if branch.outcome in ret:\n                ret[branch.outcome][\"frequency\"] += branch.frequency\n            else:\n                ret[branch.outcome] = {\n                    \"frequency\": branch.frequency,\n                    \"state\": branch.state,\n                }\n\n        return ret\n",
   "        return {\n            branch.outcome: {\"frequency\": branch.frequency, \"state\": branch.state}\n            for branch in self.branches\n        }\n"))

# --- C05e carried cursor, C05f single writer of the interferometer
V("c05e-cursor-skipped-by-continue", "C05", {"rule": "C05e", "contains": "_general_input_norm|cursor start"},
  (PPROB, "    for occupation in input_occupation:\n        stop = start + occupation\n", "    for occupation in input_occupation:\n        if occupation < 2:\n            continue\n\n        stop = start + occupation\n"))
V("c05e-continue-after-advance-free-loop", "C05", "silent",
  (PPROB, "    for occupation in input_occupation:\n        stop = start + occupation\n", "    for occupation in input_occupation:\n        stop = start + occupation\n        if occupation < 0:\n            raise ValueError(occupation)\n"))
V("c05f-step-writes-interferometer", "C05", {"rule": "C05f", "contains": "uniform_loss|writes interferometer"},
  (PSTEPS, "    transmissivity = instruction._get_all_params(connector)[\"transmissivity\"]\n    modes = instruction.modes\n\n    _apply_matrix_on_modes(",
   "    transmissivity = instruction._get_all_params(connector)[\"transmissivity\"]\n    modes = instruction.modes\n\n    if len(modes) == state.d:\n        state.interferometer = transmissivity * state.interferometer\n        return [Branch(state=state)]\n\n    _apply_matrix_on_modes("))

# --- shallow copy of a memoised object, attribute stores on its parts
CLEM = "piquasso/decompositions/clements.py"
V("c12d-memoised-template-shallow-copied", "C12", {"rule": "C12d", "contains": "get_decomposition_from_weights|attribute-store"},
  (CLEM, "    decomposition = clements(fallback_np.identity(d), connector=NumpyConnector())\n\n    index = 0\n",
   "    decomposition = copy.copy(_trivial_decomposition(d))\n\n    index = 0\n"),
  (CLEM, "def get_decomposition_from_weights(", "@functools.lru_cache(maxsize=None)\ndef _trivial_decomposition(d):\n    return clements(NumpyConnector().fallback_np.identity(d), connector=NumpyConnector())\n\n\ndef get_decomposition_from_weights("),
  (CLEM, "from typing import List, Tuple, TYPE_CHECKING\n", "import copy\nimport functools\nfrom typing import List, Tuple, TYPE_CHECKING\n"))
V("c12d-memoised-template-deep-copied", "C12", "silent",
  (CLEM, "    decomposition = clements(fallback_np.identity(d), connector=NumpyConnector())\n\n    index = 0\n",
   "    decomposition = copy.deepcopy(_trivial_decomposition(d))\n\n    index = 0\n"),
  (CLEM, "def get_decomposition_from_weights(", "@functools.lru_cache(maxsize=None)\ndef _trivial_decomposition(d):\n    return clements(NumpyConnector().fallback_np.identity(d), connector=NumpyConnector())\n\n\ndef get_decomposition_from_weights("),
  (CLEM, "from typing import List, Tuple, TYPE_CHECKING\n", "import copy\nimport functools\nfrom typing import List, Tuple, TYPE_CHECKING\n"))

# --- C04e aggregate zero tests
LOOPH = "piquasso/_math/hafnian/loop_hafnian.py"
V("c04e-sum-of-signed-vector-zero", "C04", {"rule": "C04e", "contains": "np.sum(diagonal)"},
  (LOOPH, "    loop_corrections = calculate_loop_corrections(\n        reduced_diagonal_right, reduced_diagonal_left, B, dim_over_2\n    )\n\n    return _calc_f_loop(traces, loop_corrections)",
   "    if np.sum(diagonal) == 0.0:\n        loop_corrections = np.zeros(dim_over_2, dtype=traces.dtype)\n    else:\n        loop_corrections = calculate_loop_corrections(\n            reduced_diagonal_right, reduced_diagonal_left, B, dim_over_2\n        )\n\n    return _calc_f_loop(traces, loop_corrections)"))
V("c04e-sum-of-abs-zero", "C04", "silent",
  (LOOPH, "    loop_corrections = calculate_loop_corrections(\n        reduced_diagonal_right, reduced_diagonal_left, B, dim_over_2\n    )\n\n    return _calc_f_loop(traces, loop_corrections)",
   "    if np.sum(np.abs(diagonal)) == 0.0:\n        loop_corrections = np.zeros(dim_over_2, dtype=traces.dtype)\n    else:\n        loop_corrections = calculate_loop_corrections(\n            reduced_diagonal_right, reduced_diagonal_left, B, dim_over_2\n        )\n\n    return _calc_f_loop(traces, loop_corrections)"))

# --- round 4 variants
SIMF2 = "piquasso/api/simulator.py"
SSTEPS = "piquasso/_simulators/simulation_steps.py"
GSTEPS2 = "piquasso/_simulators/gaussian/simulation_steps.py"
TFCONN = "piquasso/_simulators/connectors/tensorflow_/connector.py"
PASSLIN2 = "piquasso/_simulators/fock/pure/simulation_steps/passive_linear.py"
V("c16-active-modes-through-set", "C16", {"rule": "C16b", "contains": "_delete_modes_from_active"},
  (SIMF2, "        return tuple(\n            mode\n            for mode in active_modes\n            if mode not in Simulator._remap_modes_inverse(active_modes, modes)\n        )\n",
   "        measured = Simulator._remap_modes_inverse(active_modes, modes)\n        return tuple(set(active_modes) - set(measured))\n"))
V("c12f-branches-share-state", "C12", {"rule": "C12f", "contains": "imperfect_particle_number_measurement"},
  (SSTEPS, "                            state=branch.state.copy(),\n", "                            state=branch.state,\n"))
V("c12f-copy-bound-first", "C12", "silent",
  (SSTEPS, "                    imperfect_branches.append(\n                        Branch(\n                            state=branch.state.copy(),\n",
   "                    own_state = branch.state.copy()\n                    imperfect_branches.append(\n                        Branch(\n                            state=own_state,\n"))
V("c02f-detectable-counts-other-axis", "C02", {"rule": "C02f", "contains": "number_of_detectable_counts"},
  (SSTEPS, "    number_of_detectable_counts = detector_efficiency_matrix.shape[0]\n    detected_outcome_probabilities", "    _, number_of_detectable_counts = detector_efficiency_matrix.shape\n    detected_outcome_probabilities"))
V("c07e-early-return-skips-update", "C07", {"rule": "C07e", "contains": "_apply_linear_to_auxiliary_modes|update of"},
  (GSTEPS2, "    auxiliary_G = state._G[auxiliary_index]\n\n    state._C = connector.assign(\n        state._C,\n        auxiliary_index,\n        P.conjugate() @ auxiliary_C",
   "    auxiliary_G = state._G[auxiliary_index]\n\n    if not np.any(auxiliary_C):\n        return\n\n    state._C = connector.assign(\n        state._C,\n        auxiliary_index,\n        P.conjugate() @ auxiliary_C"))
V("c09e-tf-polar-conjugated", "C09", {"rule": "C09e", "contains": "TensorflowConnector.polar"},
  (TFCONN, "            P = self._tf.linalg.sqrtm(matrix @ adjoint)\n", "            P = self._tf.linalg.sqrtm(self.np.conj(matrix) @ matrix.T)\n"))
V("c09e-tf-polar-u-on-wrong-side", "C09", {"rule": "C09e", "contains": "side=left"},
  (TFCONN, "            U = self._tf.linalg.inv(P) @ matrix\n", "            U = matrix @ self._tf.linalg.inv(P)\n"))
V("c09e-tf-polar-inline-adjoint", "C09", "silent",
  (TFCONN, "            P = self._tf.linalg.sqrtm(matrix @ adjoint)\n", "            P = self._tf.linalg.sqrtm(matrix @ self.np.conj(matrix).T)\n"))
V("c10b-reordering-conditional", "C10", {"rule": "C10b", "contains": "state-vector order"},
  (PASSLIN2, "        gradient_by_initial_state = np.concatenate(unordered_gradient_by_initial_state)[\n            fallback_np.concatenate(order_by).argsort()\n        ]\n\n        if static_valued:\n            gradient_by_initial_state = tf.constant(gradient_by_initial_state)\n            gradient_by_matrix",
   "        gradient_by_initial_state = np.concatenate(unordered_gradient_by_initial_state)\n        if index_list[0].shape[1] != 1:\n            gradient_by_initial_state = gradient_by_initial_state[\n                fallback_np.concatenate(order_by).argsort()\n            ]\n\n        if static_valued:\n            gradient_by_initial_state = tf.constant(gradient_by_initial_state)\n            gradient_by_matrix"))
V("c14d-kron-block-layout", "C14", {"rule": "C14d", "contains": "mixed-orderings"},
  (GSTEPS2, "    full_detection_covariance = state._config.hbar * scipy.linalg.block_diag(\n        *[detection_covariance] * len(modes)\n    )\n\n    mean = state.xpxp_mean_vector[indices]",
   "    full_detection_covariance = state._config.hbar * np.kron(\n        detection_covariance, np.identity(len(modes))\n    )\n\n    mean = state.xpxp_mean_vector[indices]"))
V("c14d-kron-pairwise-layout", "C14", "silent",
  (GSTEPS2, "    full_detection_covariance = state._config.hbar * scipy.linalg.block_diag(\n        *[detection_covariance] * len(modes)\n    )\n\n    mean = state.xpxp_mean_vector[indices]",
   "    full_detection_covariance = state._config.hbar * np.kron(\n        np.identity(len(modes)), detection_covariance\n    )\n\n    mean = state.xpxp_mean_vector[indices]"))

# ------------------------------------------------------------------------------------------- C09h / C10f (session 5): the Fock-space recurrence
NBI = "piquasso/_simulators/connectors/numpy_/interferometer.py"
GCONN = "piquasso/_simulators/connectors/connector.py"
PLIN = "piquasso/_simulators/fock/pure/simulation_steps/passive_linear.py"
V("c09h-generic-rows-from-wrong-table", "C09", {"rule": "C09h", "contains": "numba == generic"},
  (GCONN, "            first_part_partially_indexed = interferometer[first_nonzero_indices]", "            first_part_partially_indexed = interferometer[first_subspace_indices]"))
V("c09h-numba-denominator-dropped", "C09", {"rule": "C09h", "contains": "numba == generic"},
  (NBI, "                    interferometer[first_nonzero_indices[k], j] / denominator\n", "                    interferometer[first_nonzero_indices[k], j]\n"))
V("c09h-generic-tables-swapped-on-unpack", "C09", {"rule": "C09h", "contains": "numba == generic"},
  (GCONN, "            subspace_indices = helper_indices[0][n - 2]\n            first_subspace_indices = helper_indices[2][n - 2]\n\n            first_nonzero_indices = helper_indices[1][n - 2]\n            sqrt_occupation_numbers",
   "            subspace_indices = helper_indices[0][n - 2]\n            first_subspace_indices = helper_indices[1][n - 2]\n\n            first_nonzero_indices = helper_indices[2][n - 2]\n            sqrt_occupation_numbers"))
V("c09h-generic-previous-level-offset", "C09", {"rule": "C09h", "contains": "level offsets"},
  (GCONN, "                subspace_representations[n - 1][first_subspace_indices],", "                subspace_representations[n - 2][first_subspace_indices],"))
V("c09h-numba-single-expression", "C09", "silent",
  (NBI, "                one_particle_contrib = (\n                    interferometer[first_nonzero_indices[k], j] / denominator\n                )\n", "                row = first_nonzero_indices[k]\n"),
  (NBI, "                        one_particle_contrib\n                        * sqrt_occupation_numbers[i, j]\n", "                        sqrt_occupation_numbers[i, j]\n                        * interferometer[row, j]\n                        / denominator\n"))
V("c09h-generic-operands-reordered", "C09", "silent",
  (GCONN, "                \"ij,kj,kij->ki\",\n                sqrt_occupation_numbers,\n                first_part_partially_indexed,\n                second,",
   "                \"ab,cab,cb->ca\",\n                sqrt_occupation_numbers,\n                second,\n                first_part_partially_indexed,"))
V("c10f-row-guard-on-column", "C10", {"rule": "C10f", "contains": "d recurrence / d U"},
  (PLIN, "            if first_nonzero_index != row_index:", "            if first_nonzero_index != col_index:"))
V("c10f-chain-term-column-fixed", "C10", {"rule": "C10f", "contains": "d recurrence / d U"},
  (PLIN, "                        first_subspace_indices[idx], subspace_indices[jdx, kdx]\n", "                        first_subspace_indices[idx], subspace_indices[jdx, col_index]\n"))
V("c10f-division-dropped", "C10", {"rule": "C10f", "contains": "d recurrence / d U"},
  (PLIN, "            subspace_grad[idx, jdx] /= sqrt_first_occupation_numbers[idx]\n", "            pass\n"))
V("c10f-previous-level-offset", "C10", {"rule": "C10f", "contains": "previous level"},
  (PLIN, "                    previous_subspace_representation = subspace_representations[p - 1]", "                    previous_subspace_representation = subspace_representations[p - 2]"))
V("c10f-derivative-not-carried", "C10", {"rule": "C10f", "contains": "carried derivative"},
  (PLIN, "                    previous_subspace_grad = subspace_grad\n", "                    pass\n"))
V("c10f-upstream-level-shifted", "C10", {"rule": "C10f", "contains": "upstream level"},
  (PLIN, "                        \"ij,ij\", upstream[p], fallback_np.conj(subspace_grad)", "                        \"ij,ij\", upstream[p - 1], fallback_np.conj(subspace_grad)"))
V("c10f-factors-reordered-loop-renamed", "C10", "silent",
  (PLIN, "            for kdx in range(sqrt_occupation_numbers.shape[1]):\n                subspace_grad[idx, jdx] += (\n                    sqrt_occupation_numbers[jdx, kdx]\n                    * interferometer[first_nonzero_indices[idx], kdx]\n                    * previous_subspace_grad[\n                        first_subspace_indices[idx], subspace_indices[jdx, kdx]\n                    ]\n                )",
   "            for m in range(sqrt_occupation_numbers.shape[1]):\n                carried = previous_subspace_grad[\n                    first_subspace_indices[idx], subspace_indices[jdx, m]\n                ]\n                subspace_grad[idx, jdx] += (\n                    interferometer[first_nonzero_indices[idx], m]\n                    * carried\n                    * sqrt_occupation_numbers[jdx, m]\n                )"))
V("c10f-guard-as-positive-test", "C10", "silent",
  (PLIN, "            if first_nonzero_index != row_index:\n                continue\n\n            subspace_grad[idx, jdx] += (\n                previous_subspace_representation[\n                    first_subspace_indices[idx],\n                    subspace_indices[jdx, col_index],\n                ]\n                * sqrt_occupation_numbers[jdx, col_index]\n            )",
   "            if first_nonzero_index == row_index:\n                subspace_grad[idx, jdx] += (\n                    previous_subspace_representation[\n                        first_subspace_indices[idx],\n                        subspace_indices[jdx, col_index],\n                    ]\n                    * sqrt_occupation_numbers[jdx, col_index]\n                )"))

# ------------------------------------------------------------------------------------------- C15d (session 5): Williamson recomposition
DECOMP = "piquasso/_math/decompositions.py"
V("c15d-symplectic-from-inverse-root", "C15", {"rule": "C15d", "contains": "S D S^T == M"},
  (DECOMP, "        root_matrix @ orthogonal_part @ basis_change @ root_inverse_diagonal_matrix", "        inverse_root_matrix @ orthogonal_part @ basis_change @ root_inverse_diagonal_matrix"))
V("c15d-diagonal-not-inverted", "C15", {"rule": "C15d", "contains": "S D S^T == M"},
  (DECOMP, "    diagonal_matrix = np.diag(1 / np.diag(inverse_diagonal_matrix))", "    diagonal_matrix = np.diag(np.diag(inverse_diagonal_matrix))"))
V("c15d-root-missing-sqrt", "C15", {"rule": "C15d", "contains": "S D S^T == M"},
  (DECOMP, "    root_inverse_diagonal_matrix = np.diag(np.sqrt(np.diag(inverse_diagonal_matrix)))", "    root_inverse_diagonal_matrix = np.diag(np.diag(inverse_diagonal_matrix))"))
V("c15d-schur-of-root-omega-root", "C15", {"rule": "C15d", "contains": "schur argument"},
  (DECOMP, "        inverse_root_matrix @ omega @ inverse_root_matrix,", "        root_matrix @ omega @ root_matrix,"))
V("c15d-basis-applied-transposed", "C15", {"rule": "C15d", "contains": "S D S^T == M"},
  (DECOMP, "        root_matrix @ orthogonal_part @ basis_change @ root_inverse_diagonal_matrix", "        root_matrix @ basis_change @ orthogonal_part @ root_inverse_diagonal_matrix @ basis_change.T"))
V("c15d-diagonal-by-negative-power", "C15", "silent",
  (DECOMP, "    diagonal_matrix = np.diag(1 / np.diag(inverse_diagonal_matrix))", "    diagonal_matrix = np.diag(np.diag(inverse_diagonal_matrix) ** -1.0)"))
V("c15d-factors-through-locals", "C15", "silent",
  (DECOMP, "        root_matrix @ orthogonal_part @ basis_change @ root_inverse_diagonal_matrix", "        root_matrix @ (orthogonal_part @ basis_change) @ root_inverse_diagonal_matrix"))
