"""Variants for the checker self-test.  Each is a small, still-compiling edit of /repo's sources.

expect = "silent" (behaviour-preserving edit: the check must stay quiet)
       | {"rule": ..., "contains": ...} (breaking edit: the check must report that rule / instance)
"""

EXPR = "piquasso/core/_expressions.py"
INSTR = "piquasso/api/instruction.py"

VARIANTS = []


def V(id, prop, expect, *edits, tier="quick"):
    VARIANTS.append({
        "id": id, "property": prop, "expect": expect, "tier": tier,
        "edits": [dict(file=f, find=a, replace=b, **(dict(count=c[0]) if c else {})) for (f, a, b, *c) in edits],
    })


# ------------------------------------------------------------------------------------------- C20
V("c20-sub-add", "C20", {"rule": "C20c", "contains": "Sub"}, (EXPR, "ast.Sub: op.sub", "ast.Sub: op.add"))
V("c20-lt-le", "C20", {"rule": "C20c", "contains": "Lt"}, (EXPR, "ast.Lt: op.lt", "ast.Lt: op.le"))
V("c20-in-contains", "C20", {"rule": "C20c", "contains": "In"},
  (EXPR, "    ast.GtE: op.ge,\n", "    ast.GtE: op.ge,\n    ast.In: op.contains,\n"))
V("c20-allow-call", "C20", {"rule": "C20b", "contains": "Call"}, (EXPR, "        ast.Tuple,\n        # optional", "        ast.Tuple,\n        ast.Call,\n        # optional"))
V("c20-allow-attribute", "C20", {"rule": "C20b", "contains": "Attribute"},
  (EXPR, "ALLOWED.discard(object())", "ALLOWED.discard(object())\nALLOWED.add(ast.Attribute)"))
V("c20-no-validate", "C20", {"rule": "C20a", "contains": "validate"},
  (EXPR, "        self._validate(self._tree)\n", "        pass\n"))
V("c20-validate-only-short", "C20", {"rule": "C20a", "contains": "validate"},
  (EXPR, "        self._validate(self._tree)\n", "        if len(self._src) < 100:\n            self._validate(self._tree)\n"))
V("c20-lazy-when", "C20", {"rule": "C20a", "contains": "when"},
  (INSTR, "            self._condition = _expressions.Expression(condition)",
   "            self._condition = lambda x, c=condition: _expressions.Expression(c)(x)"))
V("c20-name-any", "C20", {"rule": "C20b", "contains": "names"},
  (EXPR, "            if isinstance(n, ast.Name) and n.id != \"x\":\n                raise InvalidExpression(\"Only the variable name 'x' is allowed\")\n", ""))
V("c20-const-str", "C20", {"rule": "C20b", "contains": "str"},
  (EXPR, "n.value, (int, float, bool)", "n.value, (int, float, bool, str)"))
V("c20-deny-after-skip", "C20", {"rule": "C20b", "contains": "default-deny"},
  (EXPR, "            if not isinstance(n, allowed_tuple):  # type: ignore",
   "            if isinstance(n, ast.expr_context):\n                continue\n            if not isinstance(n, allowed_tuple):  # type: ignore"))
V("c20-and-all", "C20", {"rule": "C20e", "contains": "And"},
  (EXPR, "                result = True\n                for v in node.values:\n                    result = self._eval(v, x)\n                    if not result:  # falsy → return immediately\n                        return result\n                return result\n",
   "                return all(self._eval(v, x) for v in node.values)\n"))
V("c20-or-polarity", "C20", {"rule": "C20e", "contains": "Or"},
  (EXPR, "                    if result:  # truthy → return immediately", "                    if not result:"))
V("c20-and-returns-bool", "C20", {"rule": "C20e", "contains": "deciding operand"},
  (EXPR, "                    if not result:  # falsy → return immediately\n                        return result", "                    if not result:\n                        return False"))
V("c20-compare-no-carry", "C20", {"rule": "C20e", "contains": "carried"},
  (EXPR, "                left = right\n", "                pass\n"))
V("c20-compare-swapped", "C20", {"rule": "C20e", "contains": "link is tested"},
  (EXPR, "if not fn(left, right):", "if not fn(right, left):"))
V("c20-binop-swapped", "C20", {"rule": "C20c", "contains": "right-to-left"},
  (EXPR, "return fn(self._eval(node.left, x), self._eval(node.right, x))", "return fn(self._eval(node.right, x), self._eval(node.left, x))"))
V("c20-slice-swapped", "C20", {"rule": "C20e", "contains": "slice"},
  (EXPR, "return seq[slice(start, stop, step)]", "return seq[slice(stop, start, step)]"))
V("c20-no-list-arm", "C20", {"rule": "C20d", "contains": "List"},
  (EXPR, "        if isinstance(node, ast.List):\n            return [self._eval(elt, x) for elt in node.elts]\n", ""))
V("c20-eval-builtin", "C20", {"rule": "C20a", "contains": "builtin-eval"},
  (INSTR, "                resolved_param = unresolved_param(outcomes)", "                resolved_param = eval(str(unresolved_param), {'x': outcomes})"))
V("c20-floordiv-added-right", "C20", "silent",
  (EXPR, "    ast.Div: op.truediv,\n", "    ast.Div: op.truediv,\n    ast.FloorDiv: op.floordiv,\n"))
V("c20-rename-locals", "C20", "silent",
  (EXPR, "                result = True\n                for v in node.values:\n                    result = self._eval(v, x)\n                    if not result:  # falsy → return immediately\n                        return result\n                return result\n",
   "                value = True\n                for operand in node.values:\n                    value = self._eval(operand, x)\n                    if not value:\n                        return value\n                return value\n"))
V("c20-name-check-eq-form", "C20", "silent",
  (EXPR, "if isinstance(n, ast.Name) and n.id != \"x\":", "if isinstance(n, ast.Name) and not n.id == \"x\":"))
V("c20-validate-tree-local", "C20", "silent",
  (EXPR, "            self._tree = ast.parse(self._src, mode=\"eval\")\n", "            tree = ast.parse(self._src, mode=\"eval\")\n"),
  (EXPR, "        self._validate(self._tree)\n", "        self._validate(tree)\n        self._tree = tree\n"))
