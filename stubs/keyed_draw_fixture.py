# fixture of rule C02d (must fire on `cached`, stay silent on `per_mode`), parsed on every run
def cached(rng, outcome, p):
    cache = {}
    for count in outcome:
        if count not in cache:
            cache[count] = rng.choice(3, p=p[count])
    return [cache[count] for count in outcome]


def per_mode(rng, outcome, p):
    return [rng.choice(3, p=p[count]) for count in outcome]
