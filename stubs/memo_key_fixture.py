"""Positive example for C11h (never imported): a per-instance cache whose key omits state the cached method reads."""
import functools


def _memoized(get_block):
    @functools.wraps(get_block)
    def wrapper(self, connector, config):
        memo = self.__dict__.setdefault("_memo", {})
        key = (type(connector), config.complex_dtype)
        if key not in memo:
            memo[key] = get_block(self, connector, config)
        return memo[key]

    return wrapper


class Gate:
    def __init__(self, theta):
        self._params = dict(theta=theta)

    def _resolve_params(self, outcomes):
        self._params.update({k: v(outcomes) for k, v in self._params.items()})

    @_memoized
    def _get_passive_block(self, connector, config):
        return connector.np.cos(self._params["theta"])


# module-level form: a dict at module level filled under a key that omits one of the inputs of the cached computation
_decomposition_cache = {}


def _decompose(state, instruction):
    matrix = instruction._params["adjacency_matrix"]
    key = (matrix.shape, matrix.tobytes())
    if key not in _decomposition_cache:
        _decomposition_cache[key] = _expensive(matrix, instruction._params["mean_photon_number"])
    return _decomposition_cache[key]


def _expensive(matrix, mean_photon_number):
    return matrix * mean_photon_number
