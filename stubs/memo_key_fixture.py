"""Positive example for C11h (never imported): a per-instance cache whose key omits state the cached method reads."""
import functools


def _memoized(get_block):
    @functools.wraps(get_block)
    def wrapper(self, connector, config):
        memo = self.__dict__.setdefault("_memo", {})
        key = (type(connector), config.complex_dtype)
        if key not in memo:
            memo[key] = get_block(self, connector, config)
        return memo[key]

    return wrapper


class Gate:
    def __init__(self, theta):
        self._params = dict(theta=theta)

    def _resolve_params(self, outcomes):
        self._params.update({k: v(outcomes) for k, v in self._params.items()})

    @_memoized
    def _get_passive_block(self, connector, config):
        return connector.np.cos(self._params["theta"])
