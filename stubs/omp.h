/* Stub omp.h for syntax-only parsing with -fopenmp (the real header is not installed in this image). */
#ifndef PQSTATIC_STUB_OMP_H
#define PQSTATIC_STUB_OMP_H
#ifdef __cplusplus
extern "C" {
#endif
int omp_get_thread_num(void);
int omp_get_num_threads(void);
int omp_get_max_threads(void);
void omp_set_num_threads(int);
#ifdef __cplusplus
}
#endif
#endif
