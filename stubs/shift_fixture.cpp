// fixture of the C04 shift rule: the rule must fire on `narrow_shift` and stay silent on `wide_shift`, on every run
#include <cstdint>
int narrow_shift(int n) { return 1 << (n - 1); }
int64_t wide_shift(int n) { return static_cast<int64_t>(1) << (n - 1); }
