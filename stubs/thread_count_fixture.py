"""Positive example for C11g (never imported): a kernel whose job partition depends on the worker count."""
import numba as nb


def hafnian(matrix):
    return _hafnian(matrix, nb.get_num_threads())


def other():
    return nb.config.NUMBA_NUM_THREADS
