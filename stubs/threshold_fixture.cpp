// fixture of rule C04d: must fire once on `with_threshold`, never on `exact_zero`
#include <cmath>
double with_threshold(double pivot, double acc) { if (std::abs(pivot) > 1e-8) { acc *= pivot; } return acc; }
double exact_zero(double pivot, double acc) { if (pivot != 0) { acc *= pivot; } for (int i = 0; i < 3; i++) { acc += 1.0; } return acc; }
