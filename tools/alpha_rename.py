#!/usr/local/bin/python3-vt
"""Behaviour-preserving stress test of the checks: copy the analysed sources, rename every *local variable* of every function
(not parameters, attributes, globals, nonlocals, names used in nested scopes) to <name>_r, and run the checks on the copy.
Usage: tools/alpha_rename.py [PROP ...]   (prints checks whose verdict changes)"""
import ast, os, shutil, subprocess, sys, tempfile, symtable

HERE = os.path.dirname(os.path.dirname(os.path.abspath(__file__)))
sys.path.insert(0, os.path.join(HERE, "selftest"))
from run import make_copy, keys_of, baseline  # noqa: E402


class Renamer(ast.NodeTransformer):
    def __init__(self, src, path):
        self.table = symtable.symtable(src, path, "exec")
        self.stack = [self.table]

    def _child(self, name, lineno):
        for c in self.stack[-1].get_children():
            if c.get_name() == name and c.get_lineno() == lineno:
                return c
        return None

    def visit_FunctionDef(self, node):
        lineno = node.lineno
        child = self._child(node.name, lineno)
        if child is None:
            return node
        self.stack.append(child)
        # locals that are not parameters, not free/global, not referenced by nested scopes
        nested_used = set()
        def collect(t):
            for c in t.get_children():
                for s in c.get_symbols():
                    if s.is_free():
                        nested_used.add(s.get_name())
                collect(c)
        collect(child)
        ren = set()
        for s in child.get_symbols():
            if s.is_local() and not s.is_parameter() and not s.is_global() and not s.is_free() and not s.is_imported() \
                    and s.get_name() not in nested_used and not s.is_namespace() and not s.get_name().startswith("__"):
                ren.add(s.get_name())
        node.decorator_list = node.decorator_list
        new_body = []
        for st in node.body:
            new_body.append(_Apply(ren, self).visit(st))
        node.body = new_body
        self.stack.pop()
        return node

    visit_AsyncFunctionDef = visit_FunctionDef

    def visit_ClassDef(self, node):
        child = self._child(node.name, node.lineno)
        if child is None:
            return node
        self.stack.append(child)
        node.body = [self.visit(s) for s in node.body]
        self.stack.pop()
        return node


class _Apply(ast.NodeTransformer):
    def __init__(self, ren, outer):
        self.ren, self.outer = ren, outer

    def visit_Name(self, node):
        if node.id in self.ren:
            return ast.copy_location(ast.Name(node.id + "_r", node.ctx), node)
        return node

    def visit_FunctionDef(self, node):
        return self.outer.visit_FunctionDef(node)

    visit_AsyncFunctionDef = visit_FunctionDef

    def visit_Lambda(self, node):
        return node  # lambda bodies may capture; leave untouched

    def visit_ClassDef(self, node):
        return node

    def visit_ListComp(self, node):
        return self._comp(node)
    visit_SetComp = visit_DictComp = visit_GeneratorExp = visit_ListComp

    def _comp(self, node):
        # comprehension variables live in their own scope; names from the enclosing function inside are still renamed
        bound = {n.id for g in node.generators for n in ast.walk(g.target) if isinstance(n, ast.Name)}
        inner = _Apply(self.ren - bound, self.outer)
        return inner.generic_visit(node)

    def visit_ExceptHandler(self, node):
        if node.name in self.ren:
            node.name = node.name + "_r"
        return self.generic_visit(node)

    def visit_Global(self, node):
        return node


def main():
    props = sys.argv[1:] or [f"C{i:02d}" for i in range(1, 21)]
    root = tempfile.mkdtemp(prefix="pqstatic-alpha-"); os.rmdir(root)
    make_copy(root)
    n = 0
    for dp, _, fs in os.walk(os.path.join(root, "piquasso")):
        for f in fs:
            if not f.endswith(".py"):
                continue
            p = os.path.join(dp, f)
            src = open(p).read()
            try:
                tree = ast.parse(src)
                tree = Renamer(src, p).visit(tree)
                out = ast.unparse(ast.fix_missing_locations(tree))
                compile(out, p, "exec")
                open(p, "w").write(out)
                n += 1
            except Exception as e:  # noqa: BLE001
                print("skip", p, e)
    print("renamed locals in", n, "files under", root)
    bad = 0
    for prop in props:
        r = subprocess.run([os.path.join(HERE, "check"), prop, "--repo", root, "--no-evidence", "--replay-dir", os.path.join(root, "_r")], capture_output=True, text=True)
        b, bcode, _ = baseline(prop, "quick")
        viol = [l for l in r.stdout.splitlines() if l.startswith("VIOLATION property=")]
        new = sorted(k for k in (keys_of(r.stdout) - b) if any(k in l2 for l2 in r.stdout.splitlines() if l2.strip().startswith("instance: "))) if viol else []
        errs = [l for l in r.stdout.splitlines() if l.startswith("ANALYSIS-ERROR")]
        if r.returncode != bcode or new:
            bad += 1
            print(f"{prop}: exit {r.returncode} (baseline {bcode}) new={len(new)}")
            for k in new[:6]:
                print("    NEW", k[:200])
            for e in errs[:4]:
                print("    ", e[:260])
        else:
            print(f"{prop}: unchanged (exit {r.returncode})")
    if "--keep" not in sys.argv:
        shutil.rmtree(root, ignore_errors=True)
    return 1 if bad else 0


if __name__ == "__main__":
    sys.exit(main())
