#!/usr/bin/env python3
"""Compare a pytest junit file of the repository's suite with /root/.vp/BASELINE.json stable_pass.
usage: tools/compare_baseline.py /tmp/run.junit.xml"""
import json, sys, xml.etree.ElementTree as ET
b = json.load(open('/root/.vp/BASELINE.json'))
stable = set(b['stable_pass'])
passed, failed = set(), set()
for tc in ET.parse(sys.argv[1]).iter('testcase'):
    name = f"{tc.get('classname')}::{tc.get('name')}"
    if any(ch.tag in ('failure', 'error') for ch in tc):
        failed.add(name)
    elif not any(ch.tag == 'skipped' for ch in tc):
        passed.add(name)
missing = sorted(stable - passed)
print(f"passed {len(passed)}  failed/error {len(failed)}  baseline stable_pass {len(stable)}  missing {len(missing)}")
for m in missing[:20]:
    print("  MISSING", m)
sys.exit(1 if missing else 0)
