#!/usr/local/bin/python3-vt
"""Regenerates /verif/MANIFEST.json from the table below (claimed checks = rule modules that exist)."""

import json
import os

HERE = os.path.dirname(os.path.dirname(os.path.abspath(__file__)))

NA = {
}

CHECKS = {
    "C01": dict(
        cat="other", technique="sibling agreement between the simulators' implementations of one gate: phase exponents of the diagonal gates, displacement amplitude and squeezing Bogoliubov coefficients, complex-form symplectic assembly - translated to sympy / matrix words from source and compared",
        text="Decides three sibling-agreement clauses that are necessary for the bosonic simulators to implement the same gates: (a) the phase exponents of Kerr and CrossKerr agree between the pure-Fock, mixed-Fock and passive simulators (g_pure = g_passive, g_mixed(ket, bra) = g_pure(ket) - g_pure(bra)); (b) the amplitude the Gaussian displacement step adds equals the alpha of the Fock-space displacement matrix, and the passive/active blocks of Squeezing equal the Bogoliubov coefficients (1/g, 2A'/g) implied by the scalars of the Fock-space squeezing matrix; (c) the Fock `linear` steps assemble [[P, A], [conj A, conj P]], the convention a' = P a + A a^dagger for which the Gaussian update rules are derived (C07e); (d) the Fock attenuator's weight of the coherence |1><0| equals the factor X by which the Gaussian attenuator scales the mean. Equality of photon statistics, state vectors and density matrices of the four simulators over all programs is numerical and NOT decided; the sub-clauses for every hbar, cutoff >= 1 and mode order are decided under C14/C02, C13, C16.",
        note="Trusted: python ast, sympy, the disentangled form of the squeezing operator. Clause-level claim only.",
        ref="DESIGN 3/C01"),
    "C02": dict(
        cat="other", technique="hbar-homogeneity (units-of-measure) typing + linear-form normalisation of the sampling-law arguments + outcome-order rule (AST dataflow)",
        text="Decides three structural necessary clauses of the Born-rule property from source: (a) every sampling step feeds dimensionless kernels with hbar-degree-0 inputs and returns quadrature samples of degree 1/2; (b) the mean/cov arguments of the general-dyne normal draw normalise to mu and (sigma+sigma_m)/2 as linear forms; (c) outcomes are concatenated previous-first and the requested mode order reaches the samplers' index construction. It does not decide that the samplers have the exact law (numerical).",
        note="Trusted: the degree seeds (config.hbar:1, ladder moments:0, documented parameter degrees) and the typing rules of DESIGN E5; python ast. Clause-level claim only.",
        ref="DESIGN 3/C02, 2/E5, 2/E6-linear"),
    "C03": dict(
        cat="other", technique="exactness dataflow (Fraction/Int/Prob abstract domain) over every Branch(frequency=...) site + shots-None dominance rule on the CFG",
        text="Decides that on every path with shots given, every branch frequency is a Fraction with an integer numerator over the step's own shots parameter (or a product/sum of such), that the chain-rule update multiplies exact Fractions, and that counts are int(Fraction * shots); and that every step admitted with shots=None never uses shots numerically without a dominating None test. Sums-to-norm / sequential=joint are numerical and not decided.",
        note="Trusted: python ast; the abstract domain of DESIGN E7; fractions.Fraction semantics.",
        ref="DESIGN 3/C03, 2/E7"),
    "C04": dict(
        cat="other", technique="integer-width rule on the C++ kernels (declared accumulator types and binomialCoeff<T> instantiations vs the bound computed from the property's quantifier)",
        text="Decides one necessary clause: the integer types carrying binomial weights in the permanent kernels are wide enough for every multiplicity pattern in the stated range (no signed overflow = no UB and no wrong value there). Equality with the combinatorial definitions is numerical and not decided.",
        note="Trusted: the C++ declaration extractor (clang AST when available, a token-level declaration parser otherwise), LP64 type widths.",
        ref="DESIGN 3/C04, 2/E8b"),
    "C05": dict(
        cat="other", technique="path enumeration with condition splitting and inlined state predicates (feature-honouring rule) + affine typing of mode counts and cutoffs under post-selection with call-site context + index-notation normal form of the coefficient-extraction kernels",
        text="Decides three structural necessary clauses of the agreement of the passive state's probability interfaces: (a) every interface (single-outcome probability, probability table, marginals, state vector, and the sampling step) that hands the interferometer to an algorithm passes it the data of each optional feature of the state (particle overlap, post-selection) or has established on that path that the feature is absent, or raises; (b) mode counts and cutoffs are affine in (total modes T, post-selected modes P) and (cutoff C, post-selected photons N) and no expression reached from an interface corrects a count for post-selection twice or in the wrong direction; (c) in the coefficient-extraction formula the loss kernel and the per-mode detection kernels add up to (Gram matrix) o (identity on the input modes) as an identity in index notation, i.e. the probabilities sum to the input norm. Numerical agreement of the five algorithms with each other and with the unitary dilation is NOT decided.",
        note="Trusted: python ast; the path walker's treatment of conditions (atoms `is None`, `== {}`, opaque otherwise; boolean properties of the state inlined); the seeds len(interferometer) = T, len(post-selection accessors) = P, config.cutoff = C - N iff _set_postselection reduces it. Clause-level claim only.",
        ref="DESIGN 3/C05"),
    "C06": dict(
        cat="other", technique="twin agreement of scalar and vectorised index/dimension functions by normalised syntax trees + induction on the cutoff with binomial identities decided by sympy + structural relation between the full and the subspace index",
        text="Decides three structural necessary clauses: (a) each vectorised index / dimension function is its scalar twin applied elementwise; (b) the basis enumeration fills contiguous slices whose lengths sum to the allocated number of rows for all d >= 1 and cutoff >= 0 (induction; both steps are binomial identities decided by sympy); (c) the full index is the sector offset (the dimension formula at cutoff = total particle number) plus the index within the sector, for the bosonic and the fermionic functions. That the ranking formula is the inverse of the enumeration order for every occupation vector is arithmetic over runtime values and is NOT decided.",
        note="Trusted: python ast, the array-to-scalar normalisation map listed in the rule, sympy's simplification of binomial identities. Clause-level claim only.",
        ref="DESIGN 3/C06"),
    "C07": dict(
        cat="proof", technique="algebraic normalisation (value numbering in Q(i)[cos,sin,exp,cosh,sinh]) of the closed-form gate blocks read from source + non-commutative matrix-word normal form of the moment update rules; no execution, no solver",
        text="For every built-in gate with closed-form blocks, proves P P^dagger = 1 (passive) and P P^dagger - A A^dagger = 1, P A^T = A P^T (active) as identities in the real parameters, and the documented identities (Fourier, 50:50, Mach-Zehnder, displacement variants) by normal form of the expressions translated from gates.py. It also proves that the Gaussian simulator's update formulas for m, C, G (addressed block, cross blocks, Hermitian/symmetric fills) equal the update derived from a' = P a + A a^dagger in a non-commutative matrix-word algebra. That the index sets select the right blocks for arbitrary mode subsets is not decided.",
        note="Trusted: the syntax-directed translation table (np.cos/sin/exp/cosh/sinh/sqrt/array, arithmetic), sympy's polynomial normaliser, the docstring formulas transcribed as oracle.",
        ref="DESIGN 3/C07, 2/E6"),
    "C08": dict(
        cat="other", technique="hbar-homogeneity typing of the physicality predicates and scalar invariants of GaussianState",
        text="Decides one necessary clause for 'for all hbar': the validators test a degree-0 matrix and purity/fidelity are degree 0 in hbar. Positivity, trace and spectrum invariants of runs are numerical and not decided.",
        note="Trusted: degree seeds and typing rules of DESIGN E5.",
        ref="DESIGN 3/C08, 2/E5"),
    "C09": dict(
        cat="other", technique="connector-interface conformance over the resolved call graph + immutability (taint) rule on connector-created arrays + abstract-value guard dominance",
        text="Decides (a) every connector method called from code reachable from a simulator exists with a binding signature on every connector class that simulator admits, (b) connector-generic code never writes in place into arrays created through connector.np except via connector.assign, whose result is always used, (c) value-inspecting _validate methods are guarded for traced values. Numerical agreement between backends is not decided.",
        note="Trusted: the resolver (module index, registry tables), python ast; third-party numpy/jax/tf signatures are not inspected.",
        ref="DESIGN 3/C09, 2/E1, 2/E3"),
    "C10": dict(
        cat="other", technique="numpy roll-and-weight idioms read as ladder-operator words and compared (sympy) with the differentiated normal-ordered factorisation + einsum adjoint rule (alpha-equivalence of the VJP specifications with the adjoint of the forward specification) + cotangent-order and pairing-form rules",
        text="Decides four structural / symbolic necessary clauses for the hand-written gradient rules: (a) the gradient matrices of the single-mode displacement and squeezing operators, read from the np.roll / square-root-of-index code as sums of ladder words a^dagger^i T a^j, equal d/dr and d/dphi of the normal-ordered factorisation of D(alpha) and S(z) for all r, phi (coefficient identities decided by sympy), and the forward builders define the scalars of that factorisation; (b) the two vector-Jacobian products of each linear map y = M x of the Fock simulator (active single-mode gates, interferometer blocks) are the einsum adjoints of the forward einsum, batched and unbatched, with the non-cotangent operand conjugated, and the cotangent of the state vector is put back into state-vector order unconditionally; (c) every callback returns its cotangents in the order of the arguments of the function it is attached to; (d) a real parameter's cotangent is Re sum(upstream * conj(dT/dp)) in both arms of the callback. Agreement of gradient values with finite differences, the gradient recurrence of the interferometer representation, compiled execution and the native permanent VJP are NOT decided.",
        note="Trusted: python ast; sympy; the disentangled (normal-ordered) forms of the displacement and squeezing operators and a^dagger f(n) a = n f(n-1); numpy broadcasting of a vector along the last axis. Clause-level claim only.",
        ref="DESIGN 3/C10"),
    "C11": dict(
        cat="other", technique="randomness-provenance analysis (every draw resolved to its generator), dask-region closure analysis, parallel-loop write discipline on prange/OpenMP loops",
        text="Decides that no draw on a simulation path reads process-global RNG state, that dask and sequential arms use the same per-shot seed expression, that no callable entering a dask region draws from a generator shared between shots, that parallel loops write only loop-locals / induction-indexed elements / reductions, and that memoised results are never mutated. Different-seeds-differ and bit-level reduction order are not decided.",
        note="Trusted: the resolver and the tables of RNG APIs (random, numpy.random legacy vs Generator).",
        ref="DESIGN 3/C11, 2/E4, 2/E8c"),
    "C12": dict(
        cat="other", technique="save/restore pairing on a CFG with exception edges + copy-before-use rule + alias/taint analysis of in-place writes on caller-owned and memoised objects + C++ buffer write-through rule",
        text="Decides that caller-owned fields overwritten during execution are restored with the captured value on every exit including exception edges (and that the overwrite itself is atomic), that initial_state/config/nested instructions are only used through deep copies, that no in-place write reaches a value aliased to a user parameter, the user's instruction list or a memoised result, and that no native kernel writes through a shared numpy buffer. This property is structural; third-party code is outside.",
        note="Trusted: CFG construction (every call/setter may raise), the alias rules (views vs copies) listed in DESIGN E3, the C++ extractor.",
        ref="DESIGN 3/C12, 2/E2, 2/E3, 2/E8a"),
    "C13": dict(
        cat="other", technique="must-pass-through (dominance) on the CFG of the execution entry points + documentation/dispatch table agreement + operand-availability tables + affine list-length rule at the njit boundary + per-route predicate coverage",
        text="Decides that every path to evolution passes the shots test, the three instruction validators and the initial-state validator; that documented support is a subset of each dispatch table; that every step reads only parameters its instruction classes provide; that no interpreted call hands numba a list that is empty for some cutoff>=1; and that the mode predicates hold on every route that sets modes. That every valid program runs on every outcome history is not decided.",
        note="Trusted: the resolver, the docstring 'Supported ...' lists as the statement of documented support.",
        ref="DESIGN 3/C13, 2/E1"),
    "C14": dict(
        cat="proof", technique="hbar-homogeneity (units-of-measure) type inference over GaussianState and its helpers; each observable/getter/setter is one typing obligation",
        text="Proves, as a typing derivation over the source, that quadrature means have hbar-degree 1/2, covariances degree 1, setters store degree 0 into the ladder moments, and every dimensionless observable has degree 0 - i.e. the scaling clause of the property for all hbar>0. Numerical equality of the four representations is not decided.",
        note="Trusted: the degree seeds (config.hbar:1; _m,_C,_G:0; literals:0), the typing rules of DESIGN E5, the shape table (quadrature matrices are 2d x 2d).",
        ref="DESIGN 3/C14, 2/E5"),
    "C15": dict(
        cat="other", technique="sibling agreement by algebraic normalisation (embedded beamsplitter block vs emitted gate blocks) + writer/reader field-order agreement of the weight vector",
        text="Decides two necessary clauses: the 2x2 block used by the inverse transformation equals the product of the gate blocks emitted for the same decomposition entry for all angles, both consumers traverse operations in the same order, and the weight vector is written and read with the same layout. Givens nulling / Takagi / Williamson / Euler on degenerate inputs are numerical.",
        note="Trusted: translation table of E6, sympy normaliser.",
        ref="DESIGN 3/C15, 2/E6"),
    "C16": dict(
        cat="other", technique="order-preservation rule: dataflow of instruction.modes into index construction with a deny-list of order-destroying operations deciding an ordering",
        text="Decides one necessary clause: in every simulation step the mode tuple reaches index construction with its order intact; no sorted/np.sort/np.unique/set-based fullness test decides the ordering of outcomes or reduced states. Permutation covariance of the numerical index lists is not decided.",
        note="Trusted: resolver; set() used only for emptiness/intersection/membership is order-irrelevant and accepted.",
        ref="DESIGN 3/C16"),
    "C17": dict(
        cat="other", technique="sibling agreement of the fermionic Fock gate steps on the adjacency test (dominance on the CFG, diagonal-write form) + matrix-word derivation of the Gaussian passive update + congruence-form and exclusion-test dominance rules",
        text="Decides four structural necessary clauses of the agreement of the two fermionic simulators: (a) every gate step of the fermionic Fock simulator (which stores amplitudes without Jordan-Wigner strings) refuses non-consecutive modes before it writes the state vector or writes it only diagonally; (b) the updates of D = <a^dagger a^T> and E = <a^dagger a^dagger^T> in the Gaussian passive step equal conj(U) D U^T and conj(U) E U^dagger, derived from a' = U a in a non-commutative matrix-word algebra, with left factors on row selections and right factors on column selections; (c) the Majorana covariance matrix is updated by a congruence K cov K^T with one K; (d) both state_vector steps test occupation numbers for 0/1 on every path that stores them. Equality of the covariance matrices and probabilities of the two simulators, parity and number conservation of computed states are numerical and NOT decided.",
        note="Trusted: python ast, CFG construction, the matrix-word algebra of pqstatic/moments.py, the definitions D = <a^dagger a^T>, E = <a^dagger a^dagger^T> from the step's docstring. Clause-level claim only.",
        ref="DESIGN 3/C17"),
    "C18": dict(
        cat="other", technique="table agreement between constructor signatures, params dicts, Blackbird map, Config eq/as_code field sets, pq namespace bindings; lossless-literal deny rule; coefficient-use rule in preparation algebra",
        text="Decides that positional and keyword round trips are well-formed for every Instruction subclass (params keys = constructor parameters, in order for Blackbird classes), Config's constructor/eq/as_code field sets agree, every emitted pq.<Name> resolves to the emitting class, no ndarray reaches generated source through a lossy formatter, and preparation algebra reads every operand's coefficient. What blackbird does to floats and the execution of generated code are outside.",
        note="Trusted: resolver; blackbird is third-party.",
        ref="DESIGN 3/C18, 2/E1"),
    "C19": dict(
        cat="proof", technique="exhaustiveness of the gate dispatch + algebraic normalisation of the emitted 2x2 blocks against the Qiskit matrices including global phase",
        text="Proves for each single-qubit arm that the product of the emitted beamsplitter/phaseshifter blocks equals the Qiskit gate matrix for all angles, and that every gate of the property's set has an arm. The heralded KLM CZ/CX, statistics and classical control are not decided.",
        note="Trusted: the Qiskit matrices transcribed in the rule table; E6 translation; sympy normaliser.",
        ref="DESIGN 3/C19, 2/E6"),
    "C20": dict(
        cat="other", technique="call-order dominance (validate before evaluate), computed whitelist set vs forbidden node universe, operator tables vs language reference, evaluator arm coverage and control-flow shape rules",
        text="Decides from source that expressions are validated on every path before they can be evaluated and only at construction, that the whitelist is default-deny over the whole tree and admits none of the forbidden constructs, that each operator means Python's operator with operands in order, that every accepted node has an evaluating arm, and that and/or/chained comparisons have Python's short-circuit shape. This is the structural content of the property; nothing is evaluated.",
        note="Trusted: python ast; the reference operator table (language reference / operator module docs).",
        ref="DESIGN 3/C20, 2/E9"),
}

# clauses added after the independently seeded round (DESIGN 4c); appended to the claim text
ADDED = {
    "C10": " Also: (e) no where(mask, a, f(x)) in the differentiated forward maps hides an operation with a singular derivative behind the mask (nan gradients at the masked point); the ladder evaluator reads abs / real / imag of scalars, so a gradient written with |tanh r| instead of tanh r is decided. Also: (f) the hand-written derivative of the Fock-space recurrence of an interferometer (_calculate_subspace_grad) equals the product-rule derivative, in index notation, of the forward recurrence read from the numba loop nest, and its driver starts from the unit matrix, carries the derivative between levels and reads tables / previous level / upstream at the forward pass's offsets.",
    "C02": " Also: (f) axis typing of the detector matrix: a size read from axis k of a matrix parameter bounds only indices that run along axis k of that matrix (number of alternatives of a draw whose probability vector is a column, indices from range / itertools.product into a column, bound tests of direct indices), followed through helper return values - exact and sampled treatment of imperfect detectors agree. Also: (d) no random draw is stored under a data-dependent key and reused for several sample components. Also: (g) the position-eigenfunction weights with which the multi-mode pure-Fock homodyne sampler conditions the next mode carry the normaliser of the Hermite index (H_n(x) / sqrt(2^n n!)); known finding 32 on the current tree.",
    "C05": " Also: (d) mode tuples live in two index spaces (positions among the active modes vs original mode labels); each call from a simulation step into a state method hands the space the parameter is used in there (inferred from its combination with the post-selected modes / its use as an index into the active modes), converting with map_to_original_modes; (e) a positional cursor carried from one loop iteration to the next is advanced on every path through the loop body (no `continue` before its update); (f) only the state's initialiser and _apply_matrix_on_modes assign the effective interferometer (simulation steps never write it directly, because they hold positions among the active modes). Also: (g) in the general Gram-matrix kernel the overlap matrix is paired with the amplitudes as <phi_j|phi_i> for amplitude(i) conj(amplitude(j)): outer(v, conj(v)) goes with conj(G) / G^T, outer(conj(v), v) with G (finding 33).",
    "C03": " Also: (d) every branch state handed on by a step reachable with shots=None is the normalised projection (constructor with a normalization argument or normalize() on the way), which is what makes the simulator's multiplication of child by parent weights the chain rule. Also: (c) in every `shots is None` arm the weights handed on are the iterated probabilities themselves (times the parent branch's weight), not a renormalised or rescaled value.",
    "C04": " Also: the absolute-threshold rule covers the numba hafnian kernels (the guard of an identity-rescaling arm is the accepted idiom); an exact zero test of a sum is applied to summands that cannot cancel. Also: no `<<` is evaluated in fewer bits than the stated multiplicity range needs with a run-time count; an in-place rescaling helper returns on every path the factor it applied on that path; the native kernels branch on computed floating values only through exact tests (no absolute tolerance). Also: (f) a scale factor computed as a norm of the input (sum of absolute values) is never used as a divisor - in the same function, in a callee that receives it, or after being returned - without a dominating zero test (the all-zero matrix is a legal input); (g) an entry of a kernel's input array or of a copy of it is only updated from its old value, never overwritten.",
    "C07": " Also: every moment update of the six Gaussian update functions is executed on every non-raising path (CFG must-pass-through). Also: every closed-form block is free of config.hbar; the S_(c) matrices printed in the class docstrings equal [[P, A], [conj A, conj P]] assembled from the blocks (LaTeX fragment reader); the steps registered for gates keep the requested mode order (no sorted image, no order-insensitive shortcut). Also: (g) ownership of the Gaussian second moments - only the update helpers assign C and G (always both); the registered steps never do and change m only additively; helper methods of a gate class are evaluated in place by the closed-form engine.",
    "C08": " Also: a triangle of a density matrix mirrored by plain transposition is reported; the attenuator's weight equals the channel formula its docstring states (when stated). Also: (b) every update of the mixed-Fock density matrix has a Hermiticity-preserving form (K rho K^dagger with the same K on both sides, an elementwise factor exp(i(g(ket) - g(bra))), an explicit conjugate-transpose mirror fill) and the attenuator's weights are symmetric under ket <-> bra. Also: a second update of the attenuator at the swapped (bra, ket) index must add the complex conjugate of the primary value. Also: (c) the Gaussian channel updates the covariance matrix by a congruence (right factor = transpose of the left factor), as one expression or as a row update followed by a column update.",
    "C09": " Also: (e) a connector's hand-written polar decomposition has the contract of scipy.linalg.polar (P^2 = M^dagger M, U = M P^-1 on the right; P^2 = M M^dagger, U = P^-1 M on the left), decided in the matrix-word algebra; the result of connector.assign bound to a local that is never read again is reported (lost update under functional connectors). Also: (d) the NumPy/numba and the JAX implementation of the Gaussian density-matrix recurrence have the same normal form (pivot, initial term, loop summands, divisor). Also: (e) polar methods that delegate to a library polar on a transformed matrix return factors whose product is the matrix (word algebra with a Hermitian polar factor); (f) the array handed to connector.assign is consumed - after `B = connector.assign(A, ...)` neither A nor an alias of A is read again on any CFG path (NumPy updates it in place, JAX/TensorFlow do not). Also: (g) the formula used for traced angles in GaussianState.get_phaseshifter_expectation_value has the same kernel as the eager formula: both exponents u^dagger T u are compared through the symbolic inverses of their kernels in an algebra where diagonal matrices commute with each other but not with the covariance, and the diagonal parts are compared as functions of the angle (sympy). Also: (h) the numba loop nest (NumPy connector) and the generic einsum implementation (TensorFlow / JAX connectors) of calculate_interferometer_on_fock_space denote the same sum in index notation, with the helper tables named by position and the same level offsets.",
    "C11": " Also: (g) no Python code reads the worker count (numba.get_num_threads, NUMBA_NUM_THREADS, cpu_count); (h) a hand-written cache keys on every attribute of self that the cached method reads and that a method other than __init__ re-assigns or mutates. Also: the seed of every privately constructed generator is traced to a read of the seed_sequence property; no object shared by the shots of a dask region (bound by partial, free variable of the per-shot closure) is written in place by the per-shot callable; the jobs of the native permanent tile the Gray-code range exactly for every job count (S(0)=0, E(K-1)=M-1, S(j+1)=E(j)+1, proved by case split over the comparisons). Also: (h, module-level form) a dict bound at module level and filled under `if key not in CACHE` is keyed on every input (access path rooted at a parameter) the stored value is computed from. Also: the identity of arrays updated through connector.assign is not a cache key; a shared Generator is replaced, never re-seeded in place. Every path of the seed setter that re-creates the numpy generator re-seeds Python's global generator too.",
    "C06": " Also: (d) the accumulators of the vectorised index functions have a literal integer dtype of at least 32 bits, never the dtype of the argument. Also: (e) loop invariant of comb / arr_comb decided with sympy: the accumulator starts at 1 and one iteration maps C(n, i) to C(n, i + 1), so the division inside the loop is exact, intermediates are binomial coefficients and the accumulator itself is returned. The same clause requires the symmetric reduction: the loop runs min(k, n - k) times (scalar re-binding of k, or an elementwise guard on the update), so no intermediate exceeds n times the result (finding 34).",
    "C12": " Also: (f) branches built in a loop do not share one state object (the simulator evolves branch states in place); shallow copies (copy.copy) keep their element aliases, the parts of a memoised object reached through attributes belong to it and attribute stores on them are writes. Also: a shallow copy.copy of a registered instruction is not a copy (the parameter dictionaries stay shared).",
    "C13": " Also: (g) accumulator protocol for every cutoff >= 1: a constant index written into connector.accumulator(size=cutoff) is below the size and the start of a connector.range does not exceed its limit (fixed-size tf.TensorArray, tf.range). Also: the preparation-order validator may only test isinstance(., Preparation) (closed world). Also: (h) the number of modes inferred from a program is an aggregate (max) over all modes of every instruction, never one element of a mode tuple; (i) GaussianTransform._validate tests both Bogoliubov conditions - is_symplectic on the assembled [[P, A], [conj A, conj P]] with the complex symplectic form, or both block identities, compared in the matrix-word algebra.",
    "C14": " Also: doubling layouts - v.repeat(2) is pairwise (xpxp-like), concatenate([v, v]) / tile(v, 2) and the complex covariance / displacement are block (xxpp-like); sums and products combine one layout. Also: (c) every GaussianState constructed inside the library receives the config of the state it is derived from (hbar lives there); (d) ordering tags xpxp/xxpp: the index maps are applied to quantities of the source ordering, sums and products combine one ordering, ordering-named getters/setters return/receive that ordering. Also: elements of an ordering index map are positions in its source ordering; a callee that uses the elements of one parameter as indices into other parameters (summary by dataflow, also through nested functions) must receive positions and quantities of one ordering. Also: tolerance-based zero tests (allclose / isclose with 0) are applied to quantities of hbar-degree 0.",
    "C15": " Also: (c) each Givens step of the Clements sweep nulls one element of the addressed pair for the angles _get_angles returns, symbolically for every non-zero pivot and with the degenerate arm's constants for a zero pivot. Also: (d) the factors williamson returns recompose the input: with the contracts of sqrtm / real Schur / the orthogonal basis change and the arithmetic of diagonal matrices, S D S^T reduces to M in a free word algebra, D is built as a diagonal matrix and the matrix handed to the Schur decomposition is M^(-1/2) Omega M^(-1/2); the numerical behaviour of Takagi / Euler / the graph embedding and degenerate spectra are NOT decided.",
    "C16": " Also: the rule is applied per mode-tuple source when a function handles two (register and instruction), to return-based shortcuts, to sequential positional edits (np.insert / delete / pop at positions from the mode tuple inside a loop over it), and to the methods of Program, Simulator and Instruction. Also: a fullness test by length, or any test over order-insensitive aggregates of the mode tuple (len/min/max/sum/set) that substitutes a value ignoring the tuple; the complement of the complement; outcome projections that run in parallel with the mode tuple. Also: (e) a state reduced to the measured modes is never addressed again with the original mode labels (no double relabelling, also through a parameter of a nested function); sequential `del x[p]` at positions from the mode tuple inside a loop over the tuple or its reverse. Also: parameters named *_modes are mode-tuple sources wherever they occur; an elementwise image of a sorted tuple is as order-destroyed as the sorted tuple. Masks obtained by negating the mask of the complement are masks of the mode tuple. Prefix / suffix slices of the mode tuple keep its order; membership masks (np.isin(np.arange(d), modes)) are masks of the mode tuple and selections through masks are reported like stores.",
    "C17": " Also: (e) in a guarded gate step of the fermionic Fock simulator the coefficients that multiply amplitudes read from the state vector are loop-invariant (depend on the gate parameters, never on the basis state visited: on adjacent modes the Jordan-Wigner strings cancel); (f) every implementation of calculate_interferometer_on_fermionic_fock_space appends exactly one constant (first, zero particles) and every later representation depends on the matrix and, inside the loop, on a previous representation. Also: the predicate the adjacency guards rely on (are_modes_consecutive) looks at the elements of the tuple, not only at single elements and order-insensitive aggregates (first, last, length). Also: (g) a step of the fermionic Gaussian simulator that reads the normal block D also reads the pairing block E; (e) counts control dependence for coefficients with several definitions.",
    "C18": " Also: every use of an operand's raw amplitude map in __add__ is weighted by that operand's coefficient. Also: `map.get(key, default)` on an operand's raw amplitude map is a read of a raw amplitude like `map[key]`.",
    "C19": " Also: no one-sided skip guard around emitted instructions; no sorted/set image of a gate's qubit operands; no bit resolved by its position in an instruction's own operand list. Also: a bit's own `_index` (its position inside its register) is never used: qubits and classical bits are resolved with find_bit(bit).index, so circuits built from several quantum / classical registers address the right modes and the right measurement. Also: (c) also through locals computed from `.qubits`; (e) the condition built for a classical bit reads the outcomes at positions computed from that bit's index, never at fixed positions.",
    "C20": " Also: the whitelist is closed under subclassing (it is applied with isinstance) and every admitted operator class is a key of the table _eval uses; no comparator of a chained comparison is evaluated before the earlier links are tested; an evaluated slice bound is never used as a truth value; the value of a condition is consumed by truthiness only (never compared with True). Also: a handler around the evaluation of a condition re-raises: an expression that raises in Python never counts as met / not met.",
}

# properties whose check is built AND clean on the current tree (exit 0); others stay under not_applicable until then
READY = ["C01", "C02", "C03", "C04", "C05", "C06", "C07", "C08", "C09", "C10", "C11", "C12", "C13", "C14", "C15", "C16", "C17", "C18", "C19", "C20"]

PENDING_REASON = "static check for this property is not built yet in this tree (planned, see DESIGN.md section 3)"


def main() -> None:
    checks = []
    na = [{"property_id": k, "reason": v} for k, v in sorted(NA.items())]
    for pid, c in sorted(CHECKS.items()):
        if pid not in READY or not os.path.exists(os.path.join(HERE, "pqstatic", "rules", f"{pid}.py")):
            na.append({"property_id": pid, "reason": PENDING_REASON})
            continue
        checks.append({
            "property_id": pid,
            "quick_cmd": f"python3-vt /verif/check {pid} --tier quick",
            "thorough_cmd": f"python3-vt /verif/check {pid} --tier thorough",
            "evidence_file": f"/verif/evidence/{pid}.json",
            "replay_cmd_template": f"python3-vt /verif/check {pid} --tier quick --replay {{path}}",
            "engine": "pqstatic",
            "level_claimed": {"category": c["cat"], "text": c["text"] + ADDED.get(pid, ""), "design_ref": c["ref"]},
            "level_note": c["note"],
            "technique": "static analysis: " + c["technique"],
        })
    na.sort(key=lambda r: r["property_id"])
    manifest = {
        "version": 1,
        "setup_cmd": "python3-vt /verif/tools/setup_check.py",
        "hooks": {
            "guard": "PIQUASSO_VERIF",
            "enable": "none needed: the checks read /repo's source and execute nothing from it",
            "baseline_off_cmd": "cd /repo && /venv/bin/python -m pytest -ra -q -p no:cacheprovider --timeout=900 --continue-on-collection-errors",
            "source_commits": [],
            "add_only": True,
        },
        "engines": [{
            "name": "pqstatic",
            "path": "/verif/pqstatic",
            "serves_properties": [c["property_id"] for c in checks],
            "kind_free_text": "repository-specific static analysers on python ast (module index/resolver, CFG with exception edges, "
                              "taint/effect dataflow, hbar-degree typing, algebraic normalisation with sympy) and on the C++ kernels",
        }],
        "checks": checks,
        "notes": "Static analysis only: nothing from piquasso is imported or run by any check. Findings on the pinned tree are in "
                 "/verif/known_findings.json (known / fixed). Self-test of the checkers: /verif/selftest/run.py.",
        "not_applicable": na,
    }
    with open(os.path.join(HERE, "MANIFEST.json"), "w") as fh:
        json.dump(manifest, fh, indent=1)
    print(f"MANIFEST.json: {len(checks)} checks, {len(na)} not_applicable")


if __name__ == "__main__":
    main()
