#!/usr/local/bin/python3-vt
"""Confirm a sub-agent's mutation in a fresh scratch worktree and store it under /verif/seeded/<id>/.

  tools/import_seeded.py C12 m1 [--tests "tests/api tests/core"] [--skip-tests]

Confirmation (all in a new worktree under /tmp/wt/confirm-*, removed afterwards; /repo itself is never touched):
  1. demo passes on the pristine worktree            2. patch applies
  3. demo fails with the patch                        4. the chosen existing tests pass with the patch
Then the check(s) of the property are run on a patched scratch copy of the sources (tools/run_seeded.py logic).
"""
import argparse
import json
import os
import shutil
import subprocess
import sys
import time

HERE = os.path.dirname(os.path.dirname(os.path.abspath(__file__)))

TEST_MAP = [
    ("piquasso/api/", "tests/api tests/core tests/instructions"),
    ("piquasso/core/", "tests/api tests/core"),
    ("piquasso/instructions/", "tests/instructions tests/api tests/_simulators/gaussian/test_instructions.py tests/_simulators/fock/pure/test_gates.py tests/_simulators/passive"),
    ("piquasso/_simulators/gaussian/", "tests/_simulators/gaussian"),
    ("piquasso/_simulators/fock/pure", "tests/_simulators/fock/pure"),
    ("piquasso/_simulators/fock/general", "tests/_simulators/fock/general"),
    ("piquasso/_simulators/fock/", "tests/_simulators/fock"),
    ("piquasso/_simulators/passive/", "tests/_simulators/passive"),
    ("piquasso/_simulators/connectors/", "tests/_simulators/fock/pure tests/_simulators/passive"),
    ("piquasso/_simulators/simulation_steps.py", "tests/_simulators/passive tests/_simulators/fock/pure/test_measurements.py tests/_simulators/gaussian/test_measurements.py"),
    ("piquasso/_simulators/", "tests/_simulators/test_simulator.py tests/_simulators/test_state.py"),
    ("piquasso/_math/", "tests/_math"),
    ("piquasso/decompositions/", "tests/decompositions"),
    ("piquasso/fermionic/", "tests/fermionic"),
    ("piquasso/dual_rail_encoding.py", "tests/test_dual_rail_encoding.py"),
    ("piquasso/_utils.py", "tests/_simulators/fock/pure/test_measurements.py tests/_simulators/fock/general tests/fermionic"),
    ("piquasso/__init__.py", "tests/api"),
]


def sh(cmd, **kw):
    return subprocess.run(cmd, shell=True, capture_output=True, text=True, **kw)


def main() -> int:
    ap = argparse.ArgumentParser()
    ap.add_argument("prop")
    ap.add_argument("mut")
    ap.add_argument("--src", default=None, help="directory holding mN.diff / mN_demo.py / mN.md (default /tmp/wt/<prop>/mutations)")
    ap.add_argument("--tests", default=None)
    ap.add_argument("--skip-tests", action="store_true")
    ap.add_argument("--check-properties", default=None, help="comma list; default: the property itself")
    ap.add_argument("--recheck", action="store_true", help="keep the stored confirmation; only re-run the checks and refresh meta.json")
    args = ap.parse_args()
    src = args.src or f"/tmp/wt/{args.prop}/mutations"
    diff = os.path.join(src, f"{args.mut}.diff")
    demo = os.path.join(src, f"{args.mut}_demo.py")
    note = os.path.join(src, f"{args.mut}.md")
    for f in (diff, demo):
        if not args.recheck and not os.path.exists(f):
            print("missing", f)
            return 2
    sid0 = f"{args.prop}-{args.mut}"
    prev = os.path.join(HERE, "seeded", sid0, "meta.json")
    if args.recheck:
        if not os.path.exists(prev):
            print("no previous confirmation for", sid0)
            return 2
        meta = json.load(open(prev))
        if args.check_properties:
            meta["check_properties"] = args.check_properties.split(",")
        json.dump(meta, open(prev, "w"), indent=1)
        sys.path.insert(0, os.path.join(HERE, "tools"))
        import run_seeded
        res = run_seeded.run_one(os.path.dirname(prev))
        meta["checks"] = res.get("results", {})
        meta["caught_by"] = sorted(p for p, v in meta["checks"].items() if v["exit"] == 1 and v["new"])
        meta["expected"] = "caught" if meta["caught_by"] else "missed"
        json.dump(meta, open(prev, "w"), indent=1)
        print(("CAUGHT " if meta["caught_by"] else "MISSED ") + sid0, meta["caught_by"])
        return 0
    name = f"confirm-{args.prop}-{args.mut}-{os.getpid()}"
    wt = f"/tmp/wt/{name}"
    r = sh(f"mkdir -p /tmp/wt && sh {HERE}/tools/setup_wt.sh {name}")
    if r.returncode != 0:
        print("worktree setup failed", r.stderr[-300:])
        return 2
    log = {"steps": []}
    ok = True
    try:
        extra = [f for f in os.listdir(src) if f.startswith(args.mut + "_demo") or f.startswith("_")]
        os.makedirs(os.path.join(wt, "mutations"), exist_ok=True)
        for f in extra:
            shutil.copy(os.path.join(src, f), os.path.join(wt, "mutations", f))
        demo_name = "mutations/" + os.path.basename(demo)
        r0 = sh(f"./py {demo_name}", cwd=wt, timeout=1800)
        log["steps"].append({"demo on pristine": r0.returncode})
        if r0.returncode != 0:
            print("demo FAILS on the pristine tree:", (r0.stdout + r0.stderr)[-400:])
            ok = False
        ra = sh(f"git apply {diff}", cwd=wt)
        log["steps"].append({"git apply": ra.returncode})
        if ra.returncode != 0:
            print("patch does not apply:", ra.stderr[-300:])
            return 2
        files = [l[6:] for l in open(diff).read().splitlines() if l.startswith("+++ b/")]
        rc = sh("./py -c 'import piquasso'", cwd=wt, timeout=600)
        log["steps"].append({"import": rc.returncode})
        if rc.returncode != 0:
            print("library does not import with the patch")
            ok = False
        r1 = sh(f"./py {demo_name}", cwd=wt, timeout=1800)
        log["steps"].append({"demo with patch": r1.returncode})
        if r1.returncode == 0:
            print("demo PASSES with the patch (mutation not demonstrated)")
            ok = False
        tests = args.tests
        if tests is None:
            chosen = []
            for f in files:
                for prefix, t in TEST_MAP:
                    if f.startswith(prefix):
                        for x in t.split():
                            if x not in chosen:
                                chosen.append(x)
                        break
            tests = " ".join(chosen) or "tests/api"
        if not args.skip_tests and not any(f.endswith((".cpp", ".hpp")) for f in files):
            t0 = time.time()
            # tests that fail on the unchanged tree (the pinned baseline's always_fail list) are deselected
            desel = ""
            try:
                base = json.load(open("/root/.vp/BASELINE.json"))
                for t in base.get("always_fail", []):
                    if t.startswith("tests."):
                        mod, _, name = t.partition("::")
                        desel += f" --deselect {mod.replace('.', '/')}.py::{name}"
            except Exception:
                pass
            rt = sh(f"./py -m pytest -q -p no:cacheprovider --timeout=900 -x {desel} {tests}", cwd=wt, timeout=7200)
            tail = (rt.stdout.strip().splitlines() or [""])[-1]
            log["steps"].append({"tests": tests, "exit": rt.returncode, "summary": tail, "seconds": round(time.time() - t0)})
            if rt.returncode != 0:
                print("existing tests FAIL with the patch:", tail)
                print(rt.stdout[-1500:])
                ok = False
        else:
            log["steps"].append({"tests": "skipped (C++ sources are not rebuilt into the prebuilt extension modules)" if not args.skip_tests else "skipped"})
    finally:
        sh(f"git -C /repo worktree remove --force {wt}")
        shutil.rmtree(wt, ignore_errors=True)
    print(json.dumps(log, indent=1))
    if not ok:
        print("NOT CONFIRMED")
        return 1
    sid = f"{args.prop}-{args.mut}"
    out = os.path.join(HERE, "seeded", sid)
    os.makedirs(out, exist_ok=True)
    shutil.copy(diff, os.path.join(out, "patch.diff"))
    shutil.copy(demo, os.path.join(out, "demo.py"))
    for f in os.listdir(src):
        if f.startswith(args.mut + "_demo") and f != os.path.basename(demo):
            shutil.copy(os.path.join(src, f), os.path.join(out, f))
    meta = {
        "id": sid,
        "property": args.prop,
        "check_properties": (args.check_properties.split(",") if args.check_properties else [args.prop]),
        "origin": "written by an independent sub-agent that saw only the property text and its own scratch worktree",
        "description_by_author": open(note).read() if os.path.exists(note) else "",
        "confirmed": log["steps"],
        "confirmed_how": "fresh scratch worktree of /repo HEAD: demo exits 0 pristine, patch applies, library imports, demo exits non-zero with the patch, listed existing tests pass with the patch",
    }
    json.dump(meta, open(os.path.join(out, "meta.json"), "w"), indent=1)
    sys.path.insert(0, os.path.join(HERE, "tools"))
    import run_seeded
    res = run_seeded.run_one(out)
    caught = any(v["exit"] == 1 and v["new"] for v in res.get("results", {}).values())
    meta["checks"] = res.get("results", {})
    meta["expected"] = "caught" if caught else "missed"
    meta["caught_by"] = sorted(p for p, v in res.get("results", {}).items() if v["exit"] == 1 and v["new"])
    json.dump(meta, open(os.path.join(out, "meta.json"), "w"), indent=1)
    print(("CAUGHT " if caught else "MISSED ") + sid, json.dumps(res.get("results", {}))[:600])
    return 0


if __name__ == "__main__":
    sys.exit(main())
