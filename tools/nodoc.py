#!/usr/bin/env python3
"""Print python files without docstrings/comments (reading aid)."""
import ast, sys
for p in sys.argv[1:]:
    t = ast.parse(open(p).read())
    for n in ast.walk(t):
        if isinstance(n, (ast.FunctionDef, ast.ClassDef, ast.Module, ast.AsyncFunctionDef)):
            if n.body and isinstance(n.body[0], ast.Expr) and isinstance(n.body[0].value, ast.Constant) and isinstance(n.body[0].value.value, str):
                n.body = n.body[1:] or [ast.Pass()]
    print(f"##### {p}")
    print(ast.unparse(t))
