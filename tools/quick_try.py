#!/usr/local/bin/python3-vt
"""quick_try.py <patch.diff> <PROP> [PROP...] : apply a patch to a scratch copy of the analysed sources and run the checks."""
import os, shutil, subprocess, sys, tempfile
HERE = os.path.dirname(os.path.dirname(os.path.abspath(__file__)))
sys.path.insert(0, os.path.join(HERE, "selftest"))
from run import make_copy, keys_of, baseline
patch, props = sys.argv[1], sys.argv[2:]
root = tempfile.mkdtemp(prefix="pqstatic-try-"); os.rmdir(root)
try:
    make_copy(root)
    p = subprocess.run(["patch", "-p1", "-s", "-d", root, "-i", os.path.abspath(patch)], capture_output=True, text=True)
    if p.returncode: print("patch failed", p.stdout, p.stderr); sys.exit(2)
    for prop in props:
        r = subprocess.run([os.path.join(HERE, "check"), prop, "--repo", root, "--no-evidence", "--replay-dir", os.path.join(root, "_r")], capture_output=True, text=True)
        b, _, _ = baseline(prop, "quick")
        new = sorted(keys_of(r.stdout) - b)
        print(prop, "exit", r.returncode, "NEW:" if new else "nothing new", *new[:4], sep="\n   " if new else " ")
        for l in r.stdout.splitlines():
            if l.startswith("ANALYSIS-ERROR"): print("   ", l[:300])
finally:
    shutil.rmtree(root, ignore_errors=True)
