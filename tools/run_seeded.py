#!/usr/local/bin/python3-vt
"""Apply a seeded change to a scratch copy of /repo's analysed sources and run the property's check on it.

  tools/run_seeded.py seeded/<id>            (reads meta.json: property, patch)
  tools/run_seeded.py --all

Nothing is applied to /repo itself: the patch is applied with `git apply` semantics (via `patch -p1`) to a copy
of piquasso/ and src/ under $TMPDIR, which is removed afterwards.  Prints which rule instances are new relative
to the unchanged tree.
"""
import json
import os
import shutil
import subprocess
import sys
import tempfile

HERE = os.path.dirname(os.path.dirname(os.path.abspath(__file__)))
sys.path.insert(0, os.path.join(HERE, "selftest"))
from run import make_copy, keys_of, baseline  # noqa: E402


def run_one(d: str, tier: str = "quick", only=None) -> dict:
    meta = json.load(open(os.path.join(d, "meta.json")))
    props = meta.get("check_properties") or [meta["property"]]
    if only:
        props = [p for p in props if p in only]
    root = tempfile.mkdtemp(prefix="pqstatic-seeded-")
    os.rmdir(root)
    out = {"id": os.path.basename(d), "property": meta["property"], "results": {}}
    try:
        make_copy(root)
        p = subprocess.run(["patch", "-p1", "-s", "-d", root, "-i", os.path.abspath(os.path.join(d, "patch.diff"))],
                           capture_output=True, text=True)
        if p.returncode != 0:
            out["error"] = "patch failed: " + (p.stdout + p.stderr)[-300:]
            return out
        for prop in props:
            r = subprocess.run([os.path.join(HERE, "check"), prop, "--tier", tier, "--repo", root, "--no-evidence",
                                "--replay-dir", os.path.join(root, "_replays")], capture_output=True, text=True, timeout=900)
            bkeys, bcode, _ = baseline(prop, tier)
            new = sorted(keys_of(r.stdout) - bkeys)
            out["results"][prop] = {"exit": r.returncode, "new": new, "errors": [l for l in r.stdout.splitlines() if l.startswith("ANALYSIS-ERROR")][:3]}
    finally:
        shutil.rmtree(root, ignore_errors=True)
    return out


def main() -> int:
    args = [a for a in sys.argv[1:] if not a.startswith("--")]
    dirs = args
    if "--all" in sys.argv:
        base = os.path.join(HERE, "seeded")
        dirs = sorted(os.path.join(base, x) for x in os.listdir(base) if os.path.exists(os.path.join(base, x, "meta.json")))
    rc = 0
    for d in dirs:
        res = run_one(d)
        caught = any(v["exit"] == 1 and v["new"] for v in res.get("results", {}).values())
        print(f"{'CAUGHT ' if caught else 'MISSED '} {res['id']} ({res['property']})", res.get("error", ""))
        for prop, v in res.get("results", {}).items():
            print(f"    {prop}: exit {v['exit']}; new: {v['new'][:4]} {v['errors']}")
        if not caught:
            rc = 1
    return rc


if __name__ == "__main__":
    sys.exit(main())
