#!/usr/local/bin/python3-vt
"""MANIFEST.setup_cmd: nothing to build; verify the analysis interpreter and its libraries are present."""
import sys
ok = True
for mod in ("ast", "json", "sympy", "networkx", "jsonschema"):
    try:
        __import__(mod)
    except Exception as e:  # noqa: BLE001
        print(f"setup: missing {mod}: {e}")
        ok = mod in ("networkx",) and ok  # only optional libraries may be absent
print("setup: python", sys.version.split()[0], "ok" if ok else "INCOMPLETE")
sys.exit(0 if ok else 1)
