#!/bin/sh
# usage: setup_wt.sh <name>   → creates /tmp/wt/<name> (a git worktree of /repo HEAD) that can be tested in isolation:
#   cd /tmp/wt/<name> && ./py -m pytest tests/...   or   ./py script.py
set -e
N=$1
WT=/tmp/wt/$N
git -C /repo worktree add -q --detach "$WT" HEAD
mkdir -p "$WT/.wtsite"
cat > "$WT/.wtsite/sitecustomize.py" <<'PY'
import sys
# drop the editable-install finder that maps `piquasso` to /repo, so that this worktree's sources are imported
sys.meta_path = [m for m in sys.meta_path if "ScikitBuild" not in type(m).__name__]
PY
cp /venv/lib/python3.12/site-packages/piquasso/_math/*.so "$WT/piquasso/_math/"
cp /venv/lib/python3.12/site-packages/piquasso/jax_extensions/*.so "$WT/piquasso/jax_extensions/"
cat > "$WT/py" <<PY
#!/bin/sh
cd "$WT" && PYTHONPATH="$WT/.wtsite:$WT" exec /venv/bin/python "\$@"
PY
chmod +x "$WT/py"
printf '.wtsite/\npy\n*.so\n' >> "$WT/.git_info_exclude_tmp"
GD=$(git -C "$WT" rev-parse --git-dir)
mkdir -p "$GD/info"; cat "$WT/.git_info_exclude_tmp" >> "$GD/info/exclude"; rm "$WT/.git_info_exclude_tmp"
echo "$WT"
