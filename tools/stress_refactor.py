#!/usr/local/bin/python3-vt
"""More behaviour-preserving stress transformations of the analysed sources (companion of alpha_rename.py).

  nest     `if a and b: X` (no else)            ->  `if a:\n    if b: X`
  retvar   `return <call or operator expr>`     ->  `result__ = <expr>; return result__`   (not in generators / lambdas)
  shuffle  contiguous runs of top-level function definitions are reversed (definitions only; nothing is executed at import
           time between them)
Usage: tools/stress_refactor.py nest|retvar|shuffle [PROP ...]
"""
import ast, os, shutil, subprocess, sys, tempfile

HERE = os.path.dirname(os.path.dirname(os.path.abspath(__file__)))
sys.path.insert(0, os.path.join(HERE, "selftest"))
from run import make_copy, keys_of, baseline  # noqa: E402


class Nest(ast.NodeTransformer):
    def visit_If(self, node):
        self.generic_visit(node)
        if not node.orelse and isinstance(node.test, ast.BoolOp) and isinstance(node.test.op, ast.And) and len(node.test.values) == 2:
            inner = ast.If(test=node.test.values[1], body=node.body, orelse=[])
            return ast.copy_location(ast.If(test=node.test.values[0], body=[ast.copy_location(inner, node)], orelse=[]), node)
        return node


class RetVar(ast.NodeTransformer):
    def visit_FunctionDef(self, node):
        if any(isinstance(n, (ast.Yield, ast.YieldFrom)) for n in ast.walk(node)):
            return node
        self.generic_visit(node)
        node.body = self._block(node.body)
        return node

    visit_AsyncFunctionDef = visit_FunctionDef

    def _block(self, stmts):
        out = []
        for s in stmts:
            for f in ("body", "orelse", "finalbody"):
                sub = getattr(s, f, None)
                if isinstance(sub, list) and sub and isinstance(sub[0], ast.stmt) and not isinstance(s, (ast.FunctionDef, ast.AsyncFunctionDef, ast.ClassDef)):
                    setattr(s, f, self._block(sub))
            if isinstance(s, ast.Try):
                for h in s.handlers:
                    h.body = self._block(h.body)
            if isinstance(s, ast.Return) and isinstance(s.value, (ast.Call, ast.BinOp)):
                tmp = ast.Assign(targets=[ast.Name("result__", ast.Store())], value=s.value)
                out.append(ast.copy_location(tmp, s))
                out.append(ast.copy_location(ast.Return(value=ast.Name("result__", ast.Load())), s))
            else:
                out.append(s)
        return out


class Invert(ast.NodeTransformer):
    """`if c: A else: B`  ->  `if not c: B else: A`   (only plain if/else, not elif chains)"""

    def visit_If(self, node):
        self.generic_visit(node)
        if node.orelse and not (len(node.orelse) == 1 and isinstance(node.orelse[0], ast.If)):
            test = node.test.operand if isinstance(node.test, ast.UnaryOp) and isinstance(node.test.op, ast.Not) else ast.UnaryOp(op=ast.Not(), operand=node.test)
            return ast.copy_location(ast.If(test=ast.copy_location(test, node.test), body=node.orelse, orelse=node.body), node)
        return node


class Keywords(ast.NodeTransformer):
    """calls of plain functions defined in the same module: positional arguments become keyword arguments"""

    def __init__(self, tree):
        self.sigs = {}
        for s_ in tree.body:
            if isinstance(s_, ast.FunctionDef) and not s_.args.vararg and not s_.args.posonlyargs and not s_.decorator_list:
                self.sigs[s_.name] = [a.arg for a in s_.args.args]

    def visit_Call(self, node):
        self.generic_visit(node)
        if isinstance(node.func, ast.Name) and node.func.id in self.sigs and node.args and not any(isinstance(a, ast.Starred) for a in node.args):
            names = self.sigs[node.func.id]
            if len(node.args) <= len(names) and not any(k.arg in names[: len(node.args)] for k in node.keywords if k.arg):
                kws = [ast.keyword(arg=n, value=a) for n, a in zip(names, node.args)]
                return ast.copy_location(ast.Call(func=node.func, args=[], keywords=kws + node.keywords), node)
        return node


def _has_call(e):
    return any(isinstance(n, ast.Call) for n in ast.walk(e))


class MulSwap(ast.NodeTransformer):
    """`a * b` -> `b * a` (elementwise / scalar product commutes; not `@`), unless both operands contain a call (evaluation order of
    effects such as random draws is kept)"""

    def visit_BinOp(self, node):
        self.generic_visit(node)
        if isinstance(node.op, ast.Mult) and not (_has_call(node.left) and _has_call(node.right)) \
                and not any(isinstance(x, (ast.List, ast.Tuple, ast.JoinedStr)) or (isinstance(x, ast.Constant) and isinstance(x.value, str))
                            for x in (node.left, node.right)):
            return ast.copy_location(ast.BinOp(left=node.right, op=ast.Mult(), right=node.left), node)
        return node


class _Blocks(ast.NodeTransformer):
    """base: rewrite statement lists of function bodies (not class / module level)"""

    def rewrite(self, stmts, fn):
        raise NotImplementedError

    def visit_FunctionDef(self, node):
        self.generic_visit(node)
        node.body = self._block(node.body, node)
        return node

    visit_AsyncFunctionDef = visit_FunctionDef

    def _block(self, stmts, fn):
        for s in stmts:
            if isinstance(s, (ast.FunctionDef, ast.AsyncFunctionDef, ast.ClassDef)):
                continue
            for f in ("body", "orelse", "finalbody"):
                sub = getattr(s, f, None)
                if isinstance(sub, list) and sub and isinstance(sub[0], ast.stmt):
                    setattr(s, f, self._block(sub, fn))
            if isinstance(s, ast.Try):
                for h in s.handlers:
                    h.body = self._block(h.body, fn)
        return self.rewrite(stmts, fn)


class ArgTemp(_Blocks):
    """`t = f(g(x), y)` / `f(g(x), y)` / `return f(g(x), y)` -> `arg__N = g(x); ... f(arg__N, y)`: the first positional argument, when it
    is a call or an operator expression and the callee expression itself contains no call, is evaluated into a temporary first"""

    def __init__(self):
        self.n = 0

    def rewrite(self, stmts, fn):
        if any(isinstance(n, (ast.Yield, ast.YieldFrom)) for n in ast.walk(fn)):
            return stmts
        out = []
        for s in stmts:
            v = s.value if isinstance(s, (ast.Assign, ast.Expr, ast.Return)) else None
            if isinstance(v, ast.Call) and v.args and isinstance(v.args[0], (ast.Call, ast.BinOp)) and not _has_call(v.func) \
                    and not any(isinstance(n, (ast.NamedExpr, ast.Lambda, ast.Await, ast.Starred)) for n in ast.walk(v)):
                self.n += 1
                nm = f"arg__{self.n}"
                out.append(ast.copy_location(ast.Assign(targets=[ast.Name(nm, ast.Store())], value=v.args[0]), s))
                v.args[0] = ast.copy_location(ast.Name(nm, ast.Load()), v.args[0])
            out.append(s)
        return out


class UnElse(_Blocks):
    """`if c: ...return/raise  else: B`  ->  `if c: ...return/raise`  followed by B"""

    def rewrite(self, stmts, fn):
        out = []
        for s in stmts:
            if isinstance(s, ast.If) and s.orelse and s.body and isinstance(s.body[-1], (ast.Return, ast.Raise)) \
                    and not (len(s.orelse) == 1 and isinstance(s.orelse[0], ast.If)):
                tail = s.orelse
                s.orelse = []
                out.append(s)
                out.extend(tail)
            else:
                out.append(s)
        return out


class Unpack(_Blocks):
    """`a, b = x, y` -> `a = x; b = y` when y does not read a (plain names on the left)"""

    def rewrite(self, stmts, fn):
        out = []
        for s in stmts:
            if isinstance(s, ast.Assign) and len(s.targets) == 1 and isinstance(s.targets[0], ast.Tuple) and isinstance(s.value, ast.Tuple) \
                    and len(s.targets[0].elts) == len(s.value.elts) and all(isinstance(t, ast.Name) for t in s.targets[0].elts):
                names = [t.id for t in s.targets[0].elts]
                ok = True
                for i, v in enumerate(s.value.elts):
                    used = {n.id for n in ast.walk(v) if isinstance(n, ast.Name)}
                    if used & set(names[:i]):
                        ok = False
                if ok:
                    for t, v in zip(s.targets[0].elts, s.value.elts):
                        out.append(ast.copy_location(ast.Assign(targets=[t], value=v), s))
                    continue
            out.append(s)
        return out


class ParamRename(ast.NodeTransformer):
    """parameters of private module-level functions (`_name`, only ever called directly by name inside their module, no nested scopes that
    could capture a parameter) are renamed p -> p_q, with the keyword names at the call sites; the public API keeps its names"""

    def __init__(self, tree, imported_elsewhere):
        self.targets = {}
        uses = {}
        for n in ast.walk(tree):
            if isinstance(n, ast.Name) and isinstance(n.ctx, ast.Load):
                uses[n.id] = uses.get(n.id, 0) + 1
        calls = {}
        for n in ast.walk(tree):
            if isinstance(n, ast.Call) and isinstance(n.func, ast.Name):
                calls[n.func.id] = calls.get(n.func.id, 0) + 1
        for s_ in tree.body:
            if isinstance(s_, ast.FunctionDef) and s_.name.startswith("_") and not s_.name.startswith("__") and s_.name not in imported_elsewhere \
                    and uses.get(s_.name, 0) == calls.get(s_.name, 0) and not s_.args.vararg and not s_.args.kwarg \
                    and not any(isinstance(x, (ast.FunctionDef, ast.Lambda, ast.ClassDef, ast.Global, ast.Nonlocal)) and x is not s_ for x in ast.walk(s_)) \
                    and not any(any(k.arg is None for k in c.keywords) for c in ast.walk(tree)
                                if isinstance(c, ast.Call) and isinstance(c.func, ast.Name) and c.func.id == s_.name):
                params = [a.arg for a in s_.args.args + s_.args.kwonlyargs]
                body_names = {x.id for x in ast.walk(s_) if isinstance(x, ast.Name)}
                if not any(p_ + "_q" in body_names for p_ in params):
                    self.targets[s_.name] = set(params)

    def visit_FunctionDef(self, node):
        if node.name in self.targets and node in getattr(self, "_top", ()):
            ps = self.targets[node.name]
            for a in node.args.args + node.args.kwonlyargs:
                a.arg = a.arg + "_q"

            class R(ast.NodeTransformer):
                def visit_Name(self_, n):  # noqa: N805
                    return ast.copy_location(ast.Name(n.id + "_q", n.ctx), n) if n.id in ps else n
            node.body = [R().visit(st) for st in node.body]
            node.args.defaults = [R().visit(d) for d in node.args.defaults]
        self.generic_visit(node)
        return node

    def visit_Module(self, node):
        self._top = set(node.body)
        self.generic_visit(node)
        return node

    def visit_Call(self, node):
        self.generic_visit(node)
        if isinstance(node.func, ast.Name) and node.func.id in self.targets:
            for k in node.keywords:
                if k.arg in self.targets[node.func.id]:
                    k.arg = k.arg + "_q"
        return node


def _imported_private_names(root):
    out = set()
    for dp, _, fs in os.walk(root):
        for f in fs:
            if f.endswith(".py"):
                try:
                    t = ast.parse(open(os.path.join(dp, f)).read())
                except SyntaxError:
                    continue
                for n in ast.walk(t):
                    if isinstance(n, ast.ImportFrom):
                        out |= {a.name for a in n.names if a.name.startswith("_")}
                    if isinstance(n, ast.Attribute) and n.attr.startswith("_") and not n.attr.startswith("__"):
                        out.add(n.attr)
    return out


def shuffle(tree):
    body, out, run = tree.body, [], []
    for s in body + [None]:
        if isinstance(s, ast.FunctionDef) and not s.decorator_list:
            run.append(s)
        else:
            out.extend(reversed(run))
            run = []
            if s is not None:
                out.append(s)
    tree.body = out
    return tree


IMPORTED = set()


def main():
    mode = sys.argv[1]
    props = sys.argv[2:] or [f"C{i:02d}" for i in range(1, 21)]
    root = tempfile.mkdtemp(prefix=f"pqstatic-{mode}-"); os.rmdir(root)
    make_copy(root)
    global IMPORTED
    IMPORTED = _imported_private_names(os.path.join(root, "piquasso")) if mode == "paramren" else set()
    n = 0
    for dp, _, fs in os.walk(os.path.join(root, "piquasso")):
        for f in fs:
            if not f.endswith(".py"):
                continue
            p = os.path.join(dp, f)
            src = open(p).read()
            tree = ast.parse(src)
            tree = {"nest": lambda t: Nest().visit(t), "retvar": lambda t: RetVar().visit(t), "shuffle": shuffle,
                    "invert": lambda t: Invert().visit(t), "kw": lambda t: Keywords(t).visit(t),
                    "mulswap": lambda t: MulSwap().visit(t), "argtemp": lambda t: ArgTemp().visit(t),
                    "unelse": lambda t: UnElse().visit(t), "unpack": lambda t: Unpack().visit(t),
                    "paramren": lambda t: ParamRename(t, IMPORTED).visit(t)}[mode](tree)
            out = ast.unparse(ast.fix_missing_locations(tree))
            compile(out, p, "exec")
            open(p, "w").write(out)
            n += 1
    print(mode, "applied to", n, "files")
    bad = 0
    for prop in props:
        r = subprocess.run([os.path.join(HERE, "check"), prop, "--repo", root, "--no-evidence", "--replay-dir", os.path.join(root, "_r")], capture_output=True, text=True)
        b, bcode, _ = baseline(prop, "quick")
        viol = [l for l in r.stdout.splitlines() if l.startswith("VIOLATION property=")]
        errs = [l for l in r.stdout.splitlines() if l.startswith("ANALYSIS-ERROR")]
        if r.returncode != bcode:
            bad += 1
            print(f"{prop}: exit {r.returncode} (baseline {bcode})")
            for l in r.stdout.splitlines():
                if l.strip().startswith("instance: ") and viol:
                    print("    ", l.strip()[:220])
            for e in errs[:4]:
                print("    ", e[:260])
        else:
            print(f"{prop}: unchanged (exit {r.returncode})")
    if "--keep" not in sys.argv:
        shutil.rmtree(root, ignore_errors=True)
    return 1 if bad else 0


if __name__ == "__main__":
    sys.exit(main())
