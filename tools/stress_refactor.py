#!/usr/local/bin/python3-vt
"""More behaviour-preserving stress transformations of the analysed sources (companion of alpha_rename.py).

  nest     `if a and b: X` (no else)            ->  `if a:\n    if b: X`
  retvar   `return <call or operator expr>`     ->  `result__ = <expr>; return result__`   (not in generators / lambdas)
  shuffle  contiguous runs of top-level function definitions are reversed (definitions only; nothing is executed at import
           time between them)
Usage: tools/stress_refactor.py nest|retvar|shuffle [PROP ...]
"""
import ast, os, shutil, subprocess, sys, tempfile

HERE = os.path.dirname(os.path.dirname(os.path.abspath(__file__)))
sys.path.insert(0, os.path.join(HERE, "selftest"))
from run import make_copy, keys_of, baseline  # noqa: E402


class Nest(ast.NodeTransformer):
    def visit_If(self, node):
        self.generic_visit(node)
        if not node.orelse and isinstance(node.test, ast.BoolOp) and isinstance(node.test.op, ast.And) and len(node.test.values) == 2:
            inner = ast.If(test=node.test.values[1], body=node.body, orelse=[])
            return ast.copy_location(ast.If(test=node.test.values[0], body=[ast.copy_location(inner, node)], orelse=[]), node)
        return node


class RetVar(ast.NodeTransformer):
    def visit_FunctionDef(self, node):
        if any(isinstance(n, (ast.Yield, ast.YieldFrom)) for n in ast.walk(node)):
            return node
        self.generic_visit(node)
        node.body = self._block(node.body)
        return node

    visit_AsyncFunctionDef = visit_FunctionDef

    def _block(self, stmts):
        out = []
        for s in stmts:
            for f in ("body", "orelse", "finalbody"):
                sub = getattr(s, f, None)
                if isinstance(sub, list) and sub and isinstance(sub[0], ast.stmt) and not isinstance(s, (ast.FunctionDef, ast.AsyncFunctionDef, ast.ClassDef)):
                    setattr(s, f, self._block(sub))
            if isinstance(s, ast.Try):
                for h in s.handlers:
                    h.body = self._block(h.body)
            if isinstance(s, ast.Return) and isinstance(s.value, (ast.Call, ast.BinOp)):
                tmp = ast.Assign(targets=[ast.Name("result__", ast.Store())], value=s.value)
                out.append(ast.copy_location(tmp, s))
                out.append(ast.copy_location(ast.Return(value=ast.Name("result__", ast.Load())), s))
            else:
                out.append(s)
        return out


class Invert(ast.NodeTransformer):
    """`if c: A else: B`  ->  `if not c: B else: A`   (only plain if/else, not elif chains)"""

    def visit_If(self, node):
        self.generic_visit(node)
        if node.orelse and not (len(node.orelse) == 1 and isinstance(node.orelse[0], ast.If)):
            test = node.test.operand if isinstance(node.test, ast.UnaryOp) and isinstance(node.test.op, ast.Not) else ast.UnaryOp(op=ast.Not(), operand=node.test)
            return ast.copy_location(ast.If(test=ast.copy_location(test, node.test), body=node.orelse, orelse=node.body), node)
        return node


class Keywords(ast.NodeTransformer):
    """calls of plain functions defined in the same module: positional arguments become keyword arguments"""

    def __init__(self, tree):
        self.sigs = {}
        for s_ in tree.body:
            if isinstance(s_, ast.FunctionDef) and not s_.args.vararg and not s_.args.posonlyargs and not s_.decorator_list:
                self.sigs[s_.name] = [a.arg for a in s_.args.args]

    def visit_Call(self, node):
        self.generic_visit(node)
        if isinstance(node.func, ast.Name) and node.func.id in self.sigs and node.args and not any(isinstance(a, ast.Starred) for a in node.args):
            names = self.sigs[node.func.id]
            if len(node.args) <= len(names) and not any(k.arg in names[: len(node.args)] for k in node.keywords if k.arg):
                kws = [ast.keyword(arg=n, value=a) for n, a in zip(names, node.args)]
                return ast.copy_location(ast.Call(func=node.func, args=[], keywords=kws + node.keywords), node)
        return node


def shuffle(tree):
    body, out, run = tree.body, [], []
    for s in body + [None]:
        if isinstance(s, ast.FunctionDef) and not s.decorator_list:
            run.append(s)
        else:
            out.extend(reversed(run))
            run = []
            if s is not None:
                out.append(s)
    tree.body = out
    return tree


def main():
    mode = sys.argv[1]
    props = sys.argv[2:] or [f"C{i:02d}" for i in range(1, 21)]
    root = tempfile.mkdtemp(prefix=f"pqstatic-{mode}-"); os.rmdir(root)
    make_copy(root)
    n = 0
    for dp, _, fs in os.walk(os.path.join(root, "piquasso")):
        for f in fs:
            if not f.endswith(".py"):
                continue
            p = os.path.join(dp, f)
            src = open(p).read()
            tree = ast.parse(src)
            tree = {"nest": lambda t: Nest().visit(t), "retvar": lambda t: RetVar().visit(t), "shuffle": shuffle,
                    "invert": lambda t: Invert().visit(t), "kw": lambda t: Keywords(t).visit(t)}[mode](tree)
            out = ast.unparse(ast.fix_missing_locations(tree))
            compile(out, p, "exec")
            open(p, "w").write(out)
            n += 1
    print(mode, "applied to", n, "files")
    bad = 0
    for prop in props:
        r = subprocess.run([os.path.join(HERE, "check"), prop, "--repo", root, "--no-evidence", "--replay-dir", os.path.join(root, "_r")], capture_output=True, text=True)
        b, bcode, _ = baseline(prop, "quick")
        viol = [l for l in r.stdout.splitlines() if l.startswith("VIOLATION property=")]
        errs = [l for l in r.stdout.splitlines() if l.startswith("ANALYSIS-ERROR")]
        if r.returncode != bcode:
            bad += 1
            print(f"{prop}: exit {r.returncode} (baseline {bcode})")
            for l in r.stdout.splitlines():
                if l.strip().startswith("instance: ") and viol:
                    print("    ", l.strip()[:220])
            for e in errs[:4]:
                print("    ", e[:260])
        else:
            print(f"{prop}: unchanged (exit {r.returncode})")
    if "--keep" not in sys.argv:
        shutil.rmtree(root, ignore_errors=True)
    return 1 if bad else 0


if __name__ == "__main__":
    sys.exit(main())
